package smt

import (
	"bufio"
	"fmt"
	"io"
	"os/exec"
	"strconv"
	"strings"
	"time"
)

// Result of a check-sat.
type Result int

const (
	Unsat Result = iota
	Sat
	Unknown
)

func (r Result) String() string { return [...]string{"unsat", "sat", "unknown"}[r] }

// Solver is one long-lived solver process speaking SMT-LIB2 on stdin/stdout.
type Solver struct {
	Kind    string // z3, z3-new, cvc5
	cmd     *exec.Cmd
	in      io.WriteCloser
	out     *bufio.Reader
	defined map[int]bool // term IDs defined in the current path scope
	declared map[int]bool // var IDs declared in the current path scope
	Queries int
	NSat, NUnsat, NUnknown int
	Errors  int
	Wall    time.Duration
	Longest time.Duration
	Log     io.Writer // optional transcript
	TimeoutMs int
}

func StartSolver(kind string, timeoutMs int) (*Solver, error) {
	var cmd *exec.Cmd
	switch kind {
	case "z3", "z3-new":
		cmd = exec.Command(kind, "-in", "-smt2")
	case "cvc5":
		cmd = exec.Command("cvc5", "--incremental", "--lang=smt2", "--produce-models", fmt.Sprintf("--tlimit-per=%d", timeoutMs))
	default:
		return nil, fmt.Errorf("unknown solver %q", kind)
	}
	in, err := cmd.StdinPipe()
	if err != nil {
		return nil, err
	}
	out, err := cmd.StdoutPipe()
	if err != nil {
		return nil, err
	}
	cmd.Stderr = cmd.Stdout
	if err := cmd.Start(); err != nil {
		return nil, err
	}
	s := &Solver{Kind: kind, cmd: cmd, in: in, out: bufio.NewReaderSize(out, 1<<16), TimeoutMs: timeoutMs}
	if kind != "cvc5" {
		s.send(fmt.Sprintf("(set-option :timeout %d)", timeoutMs))
		s.send("(set-option :produce-models true)")
	} else {
		s.send("(set-logic QF_BV)")
	}
	s.defined = map[int]bool{}
	s.declared = map[int]bool{}
	return s, nil
}

func (s *Solver) Close() {
	if s == nil || s.cmd == nil {
		return
	}
	s.in.Close()
	s.cmd.Process.Kill()
	s.cmd.Wait()
}

func (s *Solver) send(line string) {
	if s.Log != nil {
		fmt.Fprintln(s.Log, line)
	}
	io.WriteString(s.in, line)
	io.WriteString(s.in, "\n")
}

// BeginPath opens the scope of one path.
func (s *Solver) BeginPath() {
	s.send("(push 1)")
	s.defined = map[int]bool{}
	s.declared = map[int]bool{}
}

func (s *Solver) EndPath() {
	s.send("(pop 1)")
}

// define emits declarations/definitions for everything t depends on.
func (s *Solver) define(t *Term) {
	switch t.Op {
	case OpConst:
		return
	case OpVar:
		if !s.declared[t.VarID] {
			s.declared[t.VarID] = true
			s.send(fmt.Sprintf("(declare-const %s %s)", t.SMTName(), t.SortName()))
		}
		return
	}
	if s.defined[t.ID] {
		return
	}
	for _, a := range t.Args {
		s.define(a)
	}
	s.defined[t.ID] = true
	s.send(fmt.Sprintf("(define-fun %s () %s %s)", t.SMTName(), t.SortName(), t.Body()))
}

// Assert adds t to the current path scope permanently (until EndPath).
func (s *Solver) Assert(t *Term) {
	s.define(t)
	s.send(fmt.Sprintf("(assert %s)", t.SMTName()))
}

// Check runs check-sat under the extra assumption extra (may be nil) without
// keeping it. On Sat, and if wantModel, values of the declared variables among
// vars are returned.
func (s *Solver) Check(extra *Term, vars []*VarInfo, wantModel bool) (Result, map[int]uint64) {
	start := time.Now()
	if extra != nil {
		s.define(extra)
		s.send("(push 1)")
		s.send(fmt.Sprintf("(assert %s)", extra.SMTName()))
	}
	s.send("(check-sat)")
	s.send("(echo \"<<END>>\")")
	lines, bad := s.readUntilEnd()
	res := Unknown
	for _, l := range lines {
		switch strings.TrimSpace(l) {
		case "sat":
			res = Sat
		case "unsat":
			res = Unsat
		case "unknown", "timeout":
			res = Unknown
		}
	}
	if bad {
		res = Unknown
		s.Errors++
	}
	var model map[int]uint64
	if res == Sat && wantModel {
		var names []string
		var ids []int
		for _, v := range vars {
			if s.declared[v.T.VarID] {
				names = append(names, v.T.SMTName())
				ids = append(ids, v.T.VarID)
			}
		}
		model = map[int]uint64{}
		if len(names) > 0 {
			s.send("(get-value (" + strings.Join(names, " ") + "))")
			s.send("(echo \"<<END>>\")")
			ls, bad2 := s.readUntilEnd()
			if bad2 {
				res = Unknown
				s.Errors++
			} else {
				vals := parseValues(strings.Join(ls, " "))
				for i, n := range names {
					if v, ok := vals[n]; ok {
						model[ids[i]] = v
					}
				}
			}
		}
	}
	if extra != nil {
		s.send("(pop 1)")
	}
	d := time.Since(start)
	s.Wall += d
	if d > s.Longest {
		s.Longest = d
	}
	s.Queries++
	switch res {
	case Sat:
		s.NSat++
	case Unsat:
		s.NUnsat++
	default:
		s.NUnknown++
	}
	return res, model
}

// CheckAssuming checks the path scope plus the given extra literals.
func (s *Solver) CheckAssuming(extra []*Term, vars []*VarInfo, wantModel bool) (Result, map[int]uint64) {
	for _, t := range extra {
		s.define(t)
	}
	s.send("(push 1)")
	for _, t := range extra {
		s.send(fmt.Sprintf("(assert %s)", t.SMTName()))
	}
	r, m := s.Check(nil, vars, wantModel)
	s.send("(pop 1)")
	return r, m
}

func (s *Solver) readUntilEnd() (lines []string, bad bool) {
	for {
		l, err := s.out.ReadString('\n')
		if err != nil {
			return lines, true
		}
		l = strings.TrimRight(l, "\r\n")
		if s.Log != nil {
			fmt.Fprintln(s.Log, "; <- "+l)
		}
		t := strings.Trim(strings.TrimSpace(l), "\"")
		if t == "<<END>>" {
			return lines, bad
		}
		if strings.Contains(l, "(error") {
			bad = true
		}
		lines = append(lines, l)
	}
}

// parseValues parses "((name #x..) (name #b..) (name true) ...)".
func parseValues(s string) map[string]uint64 {
	out := map[string]uint64{}
	toks := tokenize(s)
	for i := 0; i+1 < len(toks); i++ {
		if toks[i] == "(" && i+3 < len(toks) && toks[i+1] != "(" {
			name := toks[i+1]
			val := toks[i+2]
			if val == "(" { // (_ bvN w)
				if i+5 < len(toks) && toks[i+3] == "_" && strings.HasPrefix(toks[i+4], "bv") {
					if v, err := strconv.ParseUint(toks[i+4][2:], 10, 64); err == nil {
						out[name] = v
					}
				}
				continue
			}
			switch {
			case val == "true":
				out[name] = 1
			case val == "false":
				out[name] = 0
			case strings.HasPrefix(val, "#x"):
				v, _ := strconv.ParseUint(val[2:], 16, 64)
				out[name] = v
			case strings.HasPrefix(val, "#b"):
				v, _ := strconv.ParseUint(val[2:], 2, 64)
				out[name] = v
			}
		}
	}
	return out
}

func tokenize(s string) []string {
	var toks []string
	cur := strings.Builder{}
	flush := func() {
		if cur.Len() > 0 {
			toks = append(toks, cur.String())
			cur.Reset()
		}
	}
	for _, r := range s {
		switch r {
		case '(', ')':
			flush()
			toks = append(toks, string(r))
		case ' ', '\t', '\n', '\r':
			flush()
		default:
			cur.WriteRune(r)
		}
	}
	flush()
	return toks
}
