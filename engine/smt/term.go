// Package smt: hash-consed bit-vector / boolean terms with a small simplifier,
// an evaluator and an SMT-LIB2 printer.
package smt

import (
	"fmt"
	"math"
	"sort"
	"strings"
)

type Op uint8

const (
	OpConst Op = iota
	OpVar
	OpNot
	OpAnd
	OpOr
	OpEq
	OpIte
	OpAdd
	OpSub
	OpMul
	OpUDiv
	OpSDiv
	OpURem
	OpSRem
	OpBAnd
	OpBOr
	OpBXor
	OpBNot
	OpNeg
	OpShl
	OpLShr
	OpAShr
	OpULt
	OpULe
	OpSLt
	OpSLe
	OpExtract
	OpZExt
	OpSExt
)

var opNames = map[Op]string{
	OpNot: "not", OpAnd: "and", OpOr: "or", OpEq: "=", OpIte: "ite",
	OpAdd: "bvadd", OpSub: "bvsub", OpMul: "bvmul", OpUDiv: "bvudiv", OpSDiv: "bvsdiv",
	OpURem: "bvurem", OpSRem: "bvsrem", OpBAnd: "bvand", OpBOr: "bvor", OpBXor: "bvxor",
	OpBNot: "bvnot", OpNeg: "bvneg", OpShl: "bvshl", OpLShr: "bvlshr", OpAShr: "bvashr",
	OpULt: "bvult", OpULe: "bvule", OpSLt: "bvslt", OpSLe: "bvsle",
}

// Term is an immutable hash-consed node. W==0 means Bool.
type Term struct {
	Op   Op
	W    int
	Args []*Term
	Val  uint64 // const value; extract: hi<<8|lo
	Name string
	ID   int
	VarID int
	H    uint64 // structural hash: identical across workers for identical structure
	Vars []int // sorted ids of free variables (nil for const); capped
	Many bool  // more than maxVars variables
	Size int
}

const maxVars = 6

type VarInfo struct {
	Name   string
	W      int
	T      *Term
	HasRng bool
	Lo, Hi int64
}

// Ctx owns the hash-cons table. Not safe for concurrent use (one per worker).
type tkey struct {
	op         Op
	w          int
	val        uint64
	name       string
	a0, a1, a2 int
}
type ckey struct {
	w int
	v uint64
}

type Ctx struct {
	tab   map[tkey]*Term
	ctab  map[ckey]*Term
	next  int
	VarsL []*VarInfo
	byName map[string]*Term
	True, False *Term
}

func NewCtx() *Ctx {
	c := &Ctx{tab: map[tkey]*Term{}, ctab: map[ckey]*Term{}, byName: map[string]*Term{}}
	c.True = c.mk(OpConst, 0, nil, 1, "")
	c.False = c.mk(OpConst, 0, nil, 0, "")
	return c
}

func mask(w int) uint64 {
	if w >= 64 {
		return math.MaxUint64
	}
	if w == 0 {
		return 1
	}
	return (uint64(1) << uint(w)) - 1
}

func (c *Ctx) mk(op Op, w int, args []*Term, val uint64, name string) *Term {
	k := tkey{op: op, w: w, val: val, name: name, a0: -1, a1: -1, a2: -1}
	if len(args) > 0 {
		k.a0 = args[0].ID
	}
	if len(args) > 1 {
		k.a1 = args[1].ID
	}
	if len(args) > 2 {
		k.a2 = args[2].ID
	}
	if t, ok := c.tab[k]; ok {
		return t
	}
	t := &Term{Op: op, W: w, Args: args, Val: val, Name: name, ID: c.next, VarID: -1, Size: 1}
	c.next++
	h := uint64(op)*0x9E3779B97F4A7C15 ^ uint64(w)*0xC2B2AE3D27D4EB4F ^ val*0x165667B19E3779F9
	for i := 0; i < len(name); i++ {
		h = (h ^ uint64(name[i])) * 0x100000001B3
	}
	for _, a := range args {
		h = (h ^ a.H) * 0xBF58476D1CE4E5B9
		h ^= h >> 29
	}
	t.H = h
	for _, a := range args {
		t.Size += a.Size
		if a.Many {
			t.Many = true
		}
	}
	if !t.Many && len(args) > 0 {
		var vs []int
		for _, a := range args {
			vs = mergeVars(vs, a.Vars)
		}
		if len(vs) > maxVars {
			t.Many = true
			vs = nil
		}
		t.Vars = vs
	}
	if t.Many {
		t.Vars = nil
	}
	c.tab[k] = t
	return t
}

func mergeVars(a, b []int) []int {
	if len(b) == 0 {
		return a
	}
	if len(a) == 0 {
		return b
	}
	out := make([]int, 0, len(a)+len(b))
	i, j := 0, 0
	for i < len(a) || j < len(b) {
		switch {
		case j >= len(b) || (i < len(a) && a[i] < b[j]):
			out = append(out, a[i])
			i++
		case i >= len(a) || b[j] < a[i]:
			out = append(out, b[j])
			j++
		default:
			out = append(out, a[i])
			i++
			j++
		}
	}
	return out
}

// before orders terms by structure (not by creation order), so that the
// normal forms built by the simplifier are the same in every worker.
func before(a, b *Term) bool {
	if a.H != b.H {
		return a.H < b.H
	}
	return a.ID < b.ID
}

func (t *Term) IsConst() bool { return t.Op == OpConst }
func (t *Term) IsTrue() bool  { return t.Op == OpConst && t.W == 0 && t.Val == 1 }
func (t *Term) IsFalse() bool { return t.Op == OpConst && t.W == 0 && t.Val == 0 }

// Int64 returns the constant as a sign-extended int64.
func (t *Term) Int64() int64 { return SignExt(t.Val, t.W) }

func SignExt(v uint64, w int) int64 {
	if w >= 64 || w == 0 {
		return int64(v)
	}
	if v&(1<<uint(w-1)) != 0 {
		return int64(v | ^mask(w))
	}
	return int64(v)
}

func (c *Ctx) Const(w int, v uint64) *Term {
	v &= mask(w)
	k := ckey{w, v}
	if t, ok := c.ctab[k]; ok {
		return t
	}
	t := c.mk(OpConst, w, nil, v, "")
	c.ctab[k] = t
	return t
}
func (c *Ctx) Bool(b bool) *Term {
	if b {
		return c.True
	}
	return c.False
}

// Var declares (or returns) a variable of width w (0 = Bool).
func (c *Ctx) Var(name string, w int) *Term {
	if t, ok := c.byName[name]; ok {
		if t.W != w {
			panic("smt: variable redeclared with different width: " + name)
		}
		return t
	}
	t := c.mk(OpVar, w, nil, 0, name)
	t.VarID = len(c.VarsL)
	t.Vars = []int{t.VarID}
	c.VarsL = append(c.VarsL, &VarInfo{Name: name, W: w, T: t})
	c.byName[name] = t
	return t
}

// SetRange records a signed range fact for a 64-bit variable; the caller must
// also assert it in the path condition.
func (c *Ctx) SetRange(v *Term, lo, hi int64) {
	vi := c.VarsL[v.VarID]
	vi.HasRng, vi.Lo, vi.Hi = true, lo, hi
}

func (c *Ctx) Not(a *Term) *Term {
	if a.IsConst() {
		return c.Bool(a.Val == 0)
	}
	if a.Op == OpNot {
		return a.Args[0]
	}
	return c.mk(OpNot, 0, []*Term{a}, 0, "")
}

func (c *Ctx) And(a, b *Term) *Term {
	if a.IsConst() {
		if a.Val == 0 {
			return c.False
		}
		return b
	}
	if b.IsConst() {
		if b.Val == 0 {
			return c.False
		}
		return a
	}
	if a == b {
		return a
	}
	if before(b, a) {
		a, b = b, a
	}
	return c.mk(OpAnd, 0, []*Term{a, b}, 0, "")
}

func (c *Ctx) Or(a, b *Term) *Term {
	if a.IsConst() {
		if a.Val == 1 {
			return c.True
		}
		return b
	}
	if b.IsConst() {
		if b.Val == 1 {
			return c.True
		}
		return a
	}
	if a == b {
		return a
	}
	if before(b, a) {
		a, b = b, a
	}
	return c.mk(OpOr, 0, []*Term{a, b}, 0, "")
}

func (c *Ctx) Ite(cond, a, b *Term) *Term {
	if cond.IsConst() {
		if cond.Val == 1 {
			return a
		}
		return b
	}
	if a == b {
		return a
	}
	if a.W == 0 && a.IsConst() && b.IsConst() {
		if a.Val == 1 {
			return cond
		}
		return c.Not(cond)
	}
	return c.mk(OpIte, a.W, []*Term{cond, a, b}, 0, "")
}

// lin splits t into base + const (base may be nil).
func lin(t *Term) (*Term, uint64) {
	if t.Op == OpConst {
		return nil, t.Val
	}
	if t.Op == OpAdd && t.Args[1].Op == OpConst {
		return t.Args[0], t.Args[1].Val
	}
	return t, 0
}

func (c *Ctx) fromLin(w int, base *Term, k uint64) *Term {
	k &= mask(w)
	if base == nil {
		return c.Const(w, k)
	}
	if k == 0 {
		return base
	}
	return c.mk(OpAdd, w, []*Term{base, c.Const(w, k)}, 0, "")
}

func (c *Ctx) Add(a, b *Term) *Term {
	w := a.W
	ba, ka := lin(a)
	bb, kb := lin(b)
	var base *Term
	switch {
	case ba == nil:
		base = bb
	case bb == nil:
		base = ba
	default:
		// cancel x + (0 - x)-like shapes is not attempted; order by ID
		x, y := ba, bb
		if before(y, x) {
			x, y = y, x
		}
		// (p - q) + q => p
		if x.Op == OpSub && x.Args[1] == y {
			base = x.Args[0]
		} else if y.Op == OpSub && y.Args[1] == x {
			base = y.Args[0]
		} else {
			base = c.mk(OpAdd, w, []*Term{x, y}, 0, "")
		}
	}
	return c.fromLin(w, base, ka+kb)
}

func (c *Ctx) Sub(a, b *Term) *Term {
	w := a.W
	ba, ka := lin(a)
	bb, kb := lin(b)
	k := ka - kb
	switch {
	case bb == nil:
		return c.fromLin(w, ba, k)
	case ba == bb:
		return c.Const(w, k)
	case ba == nil:
		return c.fromLin(w, c.mk(OpNeg, w, []*Term{bb}, 0, ""), k)
	}
	// (p + q) - q => p
	if ba.Op == OpAdd && ba.Args[1].Op != OpConst {
		if ba.Args[0] == bb {
			return c.fromLin(w, ba.Args[1], k)
		}
		if ba.Args[1] == bb {
			return c.fromLin(w, ba.Args[0], k)
		}
	}
	return c.fromLin(w, c.mk(OpSub, w, []*Term{ba, bb}, 0, ""), k)
}

func (c *Ctx) Neg(a *Term) *Term {
	return c.Sub(c.Const(a.W, 0), a)
}

func (c *Ctx) bin(op Op, a, b *Term) *Term {
	w := a.W
	if a.IsConst() && b.IsConst() {
		return c.Const(w, evalBin(op, w, a.Val, b.Val))
	}
	return c.mk(op, w, []*Term{a, b}, 0, "")
}

func (c *Ctx) Mul(a, b *Term) *Term {
	if a.IsConst() && !b.IsConst() {
		a, b = b, a
	}
	if b.IsConst() {
		if b.Val == 0 {
			return b
		}
		if b.Val == 1 {
			return a
		}
	}
	return c.bin(OpMul, a, b)
}
func (c *Ctx) UDiv(a, b *Term) *Term { return c.bin(OpUDiv, a, b) }
func (c *Ctx) SDiv(a, b *Term) *Term { return c.bin(OpSDiv, a, b) }
func (c *Ctx) URem(a, b *Term) *Term { return c.bin(OpURem, a, b) }
func (c *Ctx) SRem(a, b *Term) *Term { return c.bin(OpSRem, a, b) }
func (c *Ctx) BAnd(a, b *Term) *Term {
	if b.IsConst() && b.Val == mask(b.W) {
		return a
	}
	if a.IsConst() && a.Val == mask(a.W) {
		return b
	}
	if (a.IsConst() && a.Val == 0) || (b.IsConst() && b.Val == 0) {
		return c.Const(a.W, 0)
	}
	return c.bin(OpBAnd, a, b)
}
func (c *Ctx) BOr(a, b *Term) *Term {
	if b.IsConst() && b.Val == 0 {
		return a
	}
	if a.IsConst() && a.Val == 0 {
		return b
	}
	return c.bin(OpBOr, a, b)
}
func (c *Ctx) BXor(a, b *Term) *Term { return c.bin(OpBXor, a, b) }
func (c *Ctx) Shl(a, b *Term) *Term {
	if b.IsConst() && b.Val == 0 {
		return a
	}
	return c.bin(OpShl, a, b)
}
func (c *Ctx) LShr(a, b *Term) *Term {
	if b.IsConst() && b.Val == 0 {
		return a
	}
	return c.bin(OpLShr, a, b)
}
func (c *Ctx) AShr(a, b *Term) *Term {
	if b.IsConst() && b.Val == 0 {
		return a
	}
	return c.bin(OpAShr, a, b)
}
func (c *Ctx) BNot(a *Term) *Term {
	if a.IsConst() {
		return c.Const(a.W, ^a.Val)
	}
	return c.mk(OpBNot, a.W, []*Term{a}, 0, "")
}

// Rng returns a signed interval for 64-bit terms when one is known.
func (c *Ctx) Rng(t *Term) (lo, hi int64, ok bool) {
	switch t.Op {
	case OpConst:
		v := t.Int64()
		return v, v, true
	case OpVar:
		vi := c.VarsL[t.VarID]
		if vi.HasRng {
			return vi.Lo, vi.Hi, true
		}
		if t.W < 63 && t.W > 0 {
			return 0, int64(mask(t.W)), false
		}
	case OpZExt:
		if t.Args[0].W < 63 {
			return 0, int64(mask(t.Args[0].W)), true
		}
	case OpAdd:
		l1, h1, ok1 := c.Rng(t.Args[0])
		l2, h2, ok2 := c.Rng(t.Args[1])
		if ok1 && ok2 {
			lo, o1 := addOv(l1, l2)
			hi, o2 := addOv(h1, h2)
			if !o1 && !o2 {
				return lo, hi, true
			}
		}
	}
	return 0, 0, false
}

func addOv(a, b int64) (int64, bool) {
	s := a + b
	if (a > 0 && b > 0 && s < 0) || (a < 0 && b < 0 && s >= 0) {
		return 0, true
	}
	return s, false
}

func (c *Ctx) Eq(a, b *Term) *Term {
	if a == b {
		return c.True
	}
	if a.W != b.W {
		panic(fmt.Sprintf("smt.Eq width mismatch %d %d", a.W, b.W))
	}
	if a.W == 0 {
		if a.IsConst() {
			if a.Val == 1 {
				return b
			}
			return c.Not(b)
		}
		if b.IsConst() {
			if b.Val == 1 {
				return a
			}
			return c.Not(a)
		}
	} else {
		ba, ka := lin(a)
		bb, kb := lin(b)
		if ba == bb {
			return c.Bool((ka-kb)&mask(a.W) == 0)
		}
		if ba == nil {
			// const == base+k  =>  base == const-k
			a, b = bb, c.Const(a.W, ka-kb)
		} else if bb == nil {
			a, b = ba, c.Const(a.W, kb-ka)
		}
		if a.W == 64 {
			if l1, h1, ok1 := c.Rng(a); ok1 {
				if l2, h2, ok2 := c.Rng(b); ok2 && (h1 < l2 || h2 < l1) {
					return c.False
				}
			}
		}
		// ite(c, k1, k2) == k  simplifications
		if b.IsConst() && a.Op == OpIte && a.Args[1].IsConst() && a.Args[2].IsConst() {
			t1 := a.Args[1].Val == b.Val
			t2 := a.Args[2].Val == b.Val
			switch {
			case t1 && t2:
				return c.True
			case t1:
				return a.Args[0]
			case t2:
				return c.Not(a.Args[0])
			default:
				return c.False
			}
		}
	}
	if before(b, a) {
		a, b = b, a
	}
	return c.mk(OpEq, 0, []*Term{a, b}, 0, "")
}

func (c *Ctx) cmp(op Op, a, b *Term) *Term {
	if a.IsConst() && b.IsConst() {
		return c.Bool(evalCmp(op, a.W, a.Val, b.Val))
	}
	if a == b {
		return c.Bool(op == OpULe || op == OpSLe)
	}
	signed := op == OpSLt || op == OpSLe
	if signed && a.W == 64 {
		ba, ka := lin(a)
		bb, kb := lin(b)
		if ba == bb && ba != nil {
			if l, h, ok := c.Rng(ba); ok {
				_, o1 := addOv(l, int64(ka))
				_, o2 := addOv(h, int64(ka))
				_, o3 := addOv(l, int64(kb))
				_, o4 := addOv(h, int64(kb))
				if !o1 && !o2 && !o3 && !o4 {
					return c.Bool(evalCmp(op, 64, ka, kb))
				}
			}
		}
		l1, h1, ok1 := c.Rng(a)
		l2, h2, ok2 := c.Rng(b)
		if ok1 && ok2 {
			if op == OpSLt {
				if h1 < l2 {
					return c.True
				}
				if l1 >= h2 {
					return c.False
				}
			} else {
				if h1 <= l2 {
					return c.True
				}
				if l1 > h2 {
					return c.False
				}
			}
		}
	}
	if !signed {
		// x <u 0 false ; 0 <=u x true
		if op == OpULt && b.IsConst() && b.Val == 0 {
			return c.False
		}
		if op == OpULe && a.IsConst() && a.Val == 0 {
			return c.True
		}
	}
	return c.mk(op, 0, []*Term{a, b}, 0, "")
}
// RawSLe builds a <=s b without consulting range facts (used to state the
// range assumption itself).
func (c *Ctx) RawSLe(a, b *Term) *Term {
	if a.IsConst() && b.IsConst() {
		return c.Bool(evalCmp(OpSLe, a.W, a.Val, b.Val))
	}
	return c.mk(OpSLe, 0, []*Term{a, b}, 0, "")
}

func (c *Ctx) ULt(a, b *Term) *Term { return c.cmp(OpULt, a, b) }
func (c *Ctx) ULe(a, b *Term) *Term { return c.cmp(OpULe, a, b) }
func (c *Ctx) SLt(a, b *Term) *Term { return c.cmp(OpSLt, a, b) }
func (c *Ctx) SLe(a, b *Term) *Term { return c.cmp(OpSLe, a, b) }

func (c *Ctx) Extract(a *Term, hi, lo int) *Term {
	w := hi - lo + 1
	if w == a.W && lo == 0 {
		return a
	}
	if a.IsConst() {
		return c.Const(w, a.Val>>uint(lo))
	}
	if lo == 0 && (a.Op == OpZExt || a.Op == OpSExt) {
		in := a.Args[0]
		if in.W == w {
			return in
		}
		if in.W > w {
			return c.Extract(in, hi, lo)
		}
		if a.Op == OpZExt {
			return c.ZExt(in, w)
		}
		return c.SExt(in, w)
	}
	return c.mk(OpExtract, w, []*Term{a}, uint64(hi)<<8|uint64(lo), "")
}

func (c *Ctx) ZExt(a *Term, w int) *Term {
	if w == a.W {
		return a
	}
	if a.IsConst() {
		return c.Const(w, a.Val)
	}
	if a.Op == OpZExt {
		return c.ZExt(a.Args[0], w)
	}
	return c.mk(OpZExt, w, []*Term{a}, 0, "")
}

func (c *Ctx) SExt(a *Term, w int) *Term {
	if w == a.W {
		return a
	}
	if a.IsConst() {
		return c.Const(w, uint64(SignExt(a.Val, a.W)))
	}
	if a.Op == OpZExt { // sign bit known zero
		return c.ZExt(a.Args[0], w)
	}
	return c.mk(OpSExt, w, []*Term{a}, 0, "")
}

func evalBin(op Op, w int, a, b uint64) uint64 {
	m := mask(w)
	a &= m
	b &= m
	switch op {
	case OpAdd:
		return (a + b) & m
	case OpSub:
		return (a - b) & m
	case OpMul:
		return (a * b) & m
	case OpUDiv:
		if b == 0 {
			return m
		}
		return a / b
	case OpURem:
		if b == 0 {
			return a
		}
		return a % b
	case OpSDiv:
		sa, sb := SignExt(a, w), SignExt(b, w)
		if sb == 0 {
			if sa >= 0 {
				return m
			}
			return 1
		}
		if sb == -1 {
			return uint64(-sa) & m
		}
		return uint64(sa/sb) & m
	case OpSRem:
		sa, sb := SignExt(a, w), SignExt(b, w)
		if sb == 0 {
			return a
		}
		if sb == -1 {
			return 0
		}
		return uint64(sa%sb) & m
	case OpBAnd:
		return a & b
	case OpBOr:
		return a | b
	case OpBXor:
		return a ^ b
	case OpShl:
		if b >= uint64(w) {
			return 0
		}
		return (a << b) & m
	case OpLShr:
		if b >= uint64(w) {
			return 0
		}
		return a >> b
	case OpAShr:
		sa := SignExt(a, w)
		if b >= uint64(w) {
			if sa < 0 {
				return m
			}
			return 0
		}
		return uint64(sa>>b) & m
	}
	panic("evalBin: bad op")
}

func evalCmp(op Op, w int, a, b uint64) bool {
	switch op {
	case OpULt:
		return a < b
	case OpULe:
		return a <= b
	case OpSLt:
		return SignExt(a, w) < SignExt(b, w)
	case OpSLe:
		return SignExt(a, w) <= SignExt(b, w)
	}
	panic("evalCmp")
}

// Eval evaluates t under an assignment of variables (by VarID). memo may be nil.
func Eval(t *Term, model []uint64, memo map[*Term]uint64) uint64 {
	switch t.Op {
	case OpConst:
		return t.Val
	case OpVar:
		if t.VarID < len(model) {
			return model[t.VarID] & mask(t.W)
		}
		return 0
	}
	if memo != nil {
		if v, ok := memo[t]; ok {
			return v
		}
	}
	var r uint64
	switch t.Op {
	case OpNot:
		r = 1 - Eval(t.Args[0], model, memo)
	case OpAnd:
		r = Eval(t.Args[0], model, memo)
		if r == 1 {
			r = Eval(t.Args[1], model, memo)
		}
	case OpOr:
		r = Eval(t.Args[0], model, memo)
		if r == 0 {
			r = Eval(t.Args[1], model, memo)
		}
	case OpEq:
		if Eval(t.Args[0], model, memo) == Eval(t.Args[1], model, memo) {
			r = 1
		}
	case OpIte:
		if Eval(t.Args[0], model, memo) == 1 {
			r = Eval(t.Args[1], model, memo)
		} else {
			r = Eval(t.Args[2], model, memo)
		}
	case OpULt, OpULe, OpSLt, OpSLe:
		if evalCmp(t.Op, t.Args[0].W, Eval(t.Args[0], model, memo), Eval(t.Args[1], model, memo)) {
			r = 1
		}
	case OpBNot:
		r = ^Eval(t.Args[0], model, memo) & mask(t.W)
	case OpNeg:
		r = (-Eval(t.Args[0], model, memo)) & mask(t.W)
	case OpExtract:
		lo := uint(t.Val & 0xff)
		r = (Eval(t.Args[0], model, memo) >> lo) & mask(t.W)
	case OpZExt:
		r = Eval(t.Args[0], model, memo)
	case OpSExt:
		r = uint64(SignExt(Eval(t.Args[0], model, memo), t.Args[0].W)) & mask(t.W)
	default:
		r = evalBin(t.Op, t.W, Eval(t.Args[0], model, memo), Eval(t.Args[1], model, memo))
	}
	if memo != nil && t.Size > 8 {
		memo[t] = r
	}
	return r
}

// ---- printing ----

func sortName(w int) string {
	if w == 0 {
		return "Bool"
	}
	return fmt.Sprintf("(_ BitVec %d)", w)
}

func sanitize(s string) string {
	var b strings.Builder
	for _, r := range s {
		if (r >= 'a' && r <= 'z') || (r >= 'A' && r <= 'Z') || (r >= '0' && r <= '9') || r == '_' {
			b.WriteRune(r)
		} else {
			b.WriteByte('_')
		}
	}
	return b.String()
}

func (t *Term) SMTName() string {
	switch t.Op {
	case OpVar:
		return fmt.Sprintf("v%d_%s", t.VarID, sanitize(t.Name))
	case OpConst:
		if t.W == 0 {
			if t.Val == 1 {
				return "true"
			}
			return "false"
		}
		if t.W%4 == 0 {
			return fmt.Sprintf("#x%0*x", t.W/4, t.Val)
		}
		return fmt.Sprintf("#b%0*b", t.W, t.Val)
	}
	return fmt.Sprintf("t%d", t.ID)
}

// Body prints the defining expression of a non-leaf term in terms of the
// names of its arguments.
func (t *Term) Body() string {
	var sb strings.Builder
	switch t.Op {
	case OpExtract:
		fmt.Fprintf(&sb, "((_ extract %d %d) %s)", t.Val>>8, t.Val&0xff, t.Args[0].SMTName())
	case OpZExt:
		fmt.Fprintf(&sb, "((_ zero_extend %d) %s)", t.W-t.Args[0].W, t.Args[0].SMTName())
	case OpSExt:
		fmt.Fprintf(&sb, "((_ sign_extend %d) %s)", t.W-t.Args[0].W, t.Args[0].SMTName())
	default:
		sb.WriteString("(")
		sb.WriteString(opNames[t.Op])
		for _, a := range t.Args {
			sb.WriteString(" ")
			sb.WriteString(a.SMTName())
		}
		sb.WriteString(")")
	}
	return sb.String()
}

func (t *Term) SortName() string { return sortName(t.W) }

// String renders the term as a (possibly large) tree; for diagnostics.
func (t *Term) String() string {
	if t.Op == OpConst {
		if t.W == 0 {
			return t.SMTName()
		}
		return fmt.Sprintf("%d", t.Int64())
	}
	if t.Op == OpVar {
		return t.Name
	}
	if t.Size > 60 {
		return fmt.Sprintf("<t%d size %d>", t.ID, t.Size)
	}
	var sb strings.Builder
	switch t.Op {
	case OpExtract:
		fmt.Fprintf(&sb, "(extract[%d:%d] %s)", t.Val>>8, t.Val&0xff, t.Args[0])
	case OpZExt:
		fmt.Fprintf(&sb, "(zext%d %s)", t.W, t.Args[0])
	case OpSExt:
		fmt.Fprintf(&sb, "(sext%d %s)", t.W, t.Args[0])
	default:
		sb.WriteString("(" + opNames[t.Op])
		for _, a := range t.Args {
			sb.WriteString(" " + a.String())
		}
		sb.WriteString(")")
	}
	return sb.String()
}

// SortedVarNames is a helper for deterministic output.
func (c *Ctx) SortedVarNames() []string {
	var n []string
	for _, v := range c.VarsL {
		n = append(n, v.Name)
	}
	sort.Strings(n)
	return n
}
