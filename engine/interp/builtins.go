package interp

import (
	"go/types"
	"reflect"
	"unsafe"

	"gosym/smt"

	"golang.org/x/tools/go/ssa"
)

func (in *Interp) callBuiltin(b *ssa.Builtin, args []Value, call *ssa.CallCommon) Value {
	c := in.C
	switch b.Name() {
	case "len":
		switch x := args[0].(type) {
		case Str:
			return c.Const(64, uint64(x.Len()))
		case Slice:
			return c.Const(64, uint64(x.Len))
		case *MapV:
			if x == nil {
				return c.Const(64, 0)
			}
			return c.Const(64, uint64(len(x.Keys)))
		case Array:
			return c.Const(64, uint64(len(x)))
		case Ptr:
			if x.P == nil {
				return c.Const(64, 0)
			}
			return c.Const(64, uint64(len((*x.P).(Array))))
		}
	case "cap":
		switch x := args[0].(type) {
		case Slice:
			return c.Const(64, uint64(x.Cap))
		case Array:
			return c.Const(64, uint64(len(x)))
		case Ptr:
			return c.Const(64, uint64(len((*x.P).(Array))))
		}
	case "append":
		return in.appendOp(args[0].(Slice), args[1], call)
	case "copy":
		dst := args[0].(Slice)
		var src []Value
		switch s := args[1].(type) {
		case Slice:
			if s.A != nil {
				src = s.A.E[s.Off : s.Off+s.Len]
			}
		case Str:
			for _, t := range in.strBytes(s) {
				src = append(src, t)
			}
		}
		n := dst.Len
		if len(src) < n {
			n = len(src)
		}
		if n > 0 {
			in.logStore(dst.A.O, call.Pos(), false)
			tmp := make([]Value, n)
			for i := 0; i < n; i++ {
				tmp[i] = copyVal(src[i])
			}
			copy(dst.A.E[dst.Off:dst.Off+n], tmp)
		}
		return c.Const(64, uint64(n))
	case "delete":
		m := args[0].(*MapV)
		if m != nil {
			in.logStore(m.O, call.Pos(), false)
			in.mapDelete(m, args[1])
		}
		return nil
	case "print", "println":
		return nil
	case "recover":
		// recover is only meaningful in a deferred call while panicking
		for f := in.cur; f != nil; f = f.caller {
			if f.panicking != nil {
				v := f.panicking.Val
				f.panicking = nil
				return v
			}
		}
		return Iface{}
	case "ssa:wrapnilchk":
		if p, ok := args[0].(Ptr); ok && p.P == nil {
			panic(in.goPanic("value method called using nil pointer"))
		}
		return args[0]
	case "min", "max":
		r := args[0]
		for _, a := range args[1:] {
			x, y := r.(*smt.Term), a.(*smt.Term)
			_, signed, _ := intWidth(call.Args[0].Type())
			var lt *smt.Term
			if signed {
				lt = c.SLt(y, x)
			} else {
				lt = c.ULt(y, x)
			}
			if b.Name() == "max" {
				lt = c.Not(c.Or(lt, c.Eq(x, y)))
			}
			r = c.Ite(lt, y, x)
		}
		return r
	}
	panic(in.unenc("builtin %s on %T", b.Name(), args[0]))
}

func (in *Interp) appendOp(s Slice, more Value, call *ssa.CallCommon) Value {
	var add []Value
	switch m := more.(type) {
	case Slice:
		if m.A != nil {
			add = make([]Value, m.Len)
			for i := 0; i < m.Len; i++ {
				add[i] = copyVal(m.A.E[m.Off+i])
			}
		}
	case Str:
		for _, t := range in.strBytes(m) {
			add = append(add, t)
		}
	default:
		panic(in.unenc("append of %T", more))
	}
	if len(add) == 0 {
		return s
	}
	newLen := s.Len + len(add)
	if s.A != nil && newLen <= s.Cap {
		in.logStore(s.A.O, call.Pos(), false)
		copy(s.A.E[s.Off+s.Len:s.Off+newLen], add)
		return Slice{A: s.A, Off: s.Off, Len: newLen, Cap: s.Cap}
	}
	et := call.Args[0].Type().Underlying().(*types.Slice).Elem()
	newCap := in.growCap(s.Len, s.Cap, len(add), et)
	a := &ArrObj{O: in.newObj("append"), E: make([]Value, newCap)}
	for i := 0; i < s.Len; i++ {
		a.E[i] = s.A.E[s.Off+i]
	}
	copy(a.E[s.Len:], add)
	z := in.zero(et)
	for i := newLen; i < newCap; i++ {
		a.E[i] = copyVal(z)
	}
	return Slice{A: a, Off: 0, Len: newLen, Cap: newCap}
}

func hasPointers(t types.Type) bool {
	switch u := t.Underlying().(type) {
	case *types.Basic:
		return u.Kind() == types.String || u.Kind() == types.UnsafePointer
	case *types.Struct:
		for i := 0; i < u.NumFields(); i++ {
			if hasPointers(u.Field(i).Type()) {
				return true
			}
		}
		return false
	case *types.Array:
		return hasPointers(u.Elem())
	}
	return true
}

// growCap reproduces the capacity the Go runtime of this toolchain gives
// append() by measuring a real append on an element type of the same size and
// pointer-ness (regenerated on every run; cached per process).
func (in *Interp) growCap(oldLen, oldCap, add int, et types.Type) int {
	size := int(in.Sizes.Sizeof(et))
	ptr := 0
	if hasPointers(et) {
		ptr = 1
	}
	key := [4]int{oldLen, oldCap, add, size*2 + ptr}
	if v, ok := in.growCache[key]; ok {
		return v
	}
	var elem reflect.Type
	if size == 0 {
		elem = reflect.TypeOf(struct{}{})
	} else if ptr == 1 && size%8 == 0 {
		elem = reflect.ArrayOf(size/8, reflect.TypeOf(unsafe.Pointer(nil)))
	} else {
		elem = reflect.ArrayOf(size, reflect.TypeOf(byte(0)))
	}
	st := reflect.SliceOf(elem)
	s := reflect.MakeSlice(st, oldLen, oldCap)
	extra := reflect.MakeSlice(st, add, add)
	r := reflect.AppendSlice(s, extra)
	v := r.Cap()
	in.growCache[key] = v
	return v
}
