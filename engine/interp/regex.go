package interp

import (
	"regexp"
	"regexp/syntax"
	"strconv"
	"time"
	"unicode"

	"gosym/smt"

	"golang.org/x/tools/go/ssa"
)

// reProg is the engine's value behind a *regexp.Regexp: the program the real
// regexp/syntax compiler produces for the (always concrete) pattern.
type reProg struct {
	expr   string
	prog   *syntax.Prog
	native *regexp.Regexp
}

func nativeNumErr(fname, s string) bool {
	switch fname {
	case "strconv.ParseFloat":
		_, err := strconv.ParseFloat(s, 64)
		return err != nil
	case "time.ParseDuration":
		_, err := time.ParseDuration(s)
		return err != nil
	}
	return false
}

func nativeRegexpCompile(in *Interp, fn *ssa.Function, a []Value) Value {
	expr := in.concStr(a[0], "regexp pattern")
	re, err := syntax.Parse(expr, syntax.Perl)
	if err != nil {
		panic(&GoPanic{Val: Iface{T: fn.Signature.Params().At(0).Type(), V: Str{S: "regexp: Compile(" + strconv.Quote(expr) + "): " + err.Error()}}, Msg: "regexp: Compile(" + strconv.Quote(expr) + "): " + err.Error(), Site: "regexp.MustCompile"})
	}
	prog, err := syntax.Compile(re.Simplify())
	if err != nil {
		panic(in.unenc("regexp compile: %v", err))
	}
	nat := regexp.MustCompile(expr)
	slot := new(Value)
	*slot = Opaque{Kind: "regexp", Data: &reProg{expr: expr, prog: prog, native: nat}}
	return Ptr{O: in.newObj("regexp"), P: slot}
}

func (in *Interp) reOf(v Value) *reProg {
	p := v.(Ptr)
	if p.P == nil {
		panic(in.goPanic("nil *regexp.Regexp"))
	}
	return (*p.P).(Opaque).Data.(*reProg)
}

type reMatcher struct {
	in    *Interp
	p     *reProg
	b     []*smt.Term // input bytes
	src   Slice
	runes map[int][2]interface{} // pos -> (rune term, width)
	visited map[[2]int]bool
	caps  []int
}

func (in *Interp) newMatcher(p *reProg, s Slice) *reMatcher {
	m := &reMatcher{in: in, p: p, src: s, runes: map[int][2]interface{}{}}
	m.b = make([]*smt.Term, s.Len)
	for i := 0; i < s.Len; i++ {
		m.b[i] = s.A.E[s.Off+i].(*smt.Term)
	}
	return m
}

func (m *reMatcher) allConcrete() ([]byte, bool) {
	out := make([]byte, len(m.b))
	for i, t := range m.b {
		if !t.IsConst() {
			return nil, false
		}
		out[i] = byte(t.Val)
	}
	return out, true
}

// decode returns the rune at pos through the real utf8.DecodeRune.
func (m *reMatcher) decode(pos int) (*smt.Term, int) {
	if r, ok := m.runes[pos]; ok {
		return r[0].(*smt.Term), r[1].(int)
	}
	in := m.in
	b0 := m.b[pos]
	if b0.IsConst() && b0.Val < 0x80 {
		r := in.C.Const(32, b0.Val)
		m.runes[pos] = [2]interface{}{r, 1}
		return r, 1
	}
	fn := in.lookupFunc("unicode/utf8", "DecodeRune")
	sub := Slice{A: m.src.A, Off: m.src.Off + pos, Len: m.src.Len - pos, Cap: m.src.Len - pos}
	res := in.callFunction(fn, []Value{sub}, nil).(Tuple)
	w := int(in.concretize(res[1].(*smt.Term), "rune width"))
	r := res[0].(*smt.Term)
	m.runes[pos] = [2]interface{}{r, w}
	return r, w
}

func (m *reMatcher) runeCond(inst *syntax.Inst, r *smt.Term) *smt.Term {
	c := m.in.C
	k := func(x rune) *smt.Term { return c.Const(32, uint64(uint32(x))) }
	switch inst.Op {
	case syntax.InstRuneAny:
		return c.True
	case syntax.InstRuneAnyNotNL:
		return c.Not(c.Eq(r, k('\n')))
	}
	if len(inst.Rune) == 1 {
		r0 := inst.Rune[0]
		cond := c.Eq(r, k(r0))
		if syntax.Flags(inst.Arg)&syntax.FoldCase != 0 {
			for r1 := unicode.SimpleFold(r0); r1 != r0; r1 = unicode.SimpleFold(r1) {
				cond = c.Or(cond, c.Eq(r, k(r1)))
			}
		}
		return cond
	}
	cond := c.False
	for i := 0; i+1 < len(inst.Rune); i += 2 {
		lo, hi := inst.Rune[i], inst.Rune[i+1]
		if lo == hi {
			cond = c.Or(cond, c.Eq(r, k(lo)))
		} else {
			cond = c.Or(cond, c.And(c.ULe(k(lo), r), c.ULe(r, k(hi))))
		}
	}
	return cond
}

func (m *reMatcher) isWordByte(pos int) bool {
	if pos < 0 || pos >= len(m.b) {
		return false
	}
	c := m.in.C
	b := m.b[pos]
	k := func(x byte) *smt.Term { return c.Const(8, uint64(x)) }
	cond := c.Or(c.Or(c.And(c.ULe(k('a'), b), c.ULe(b, k('z'))), c.And(c.ULe(k('A'), b), c.ULe(b, k('Z')))),
		c.Or(c.And(c.ULe(k('0'), b), c.ULe(b, k('9'))), c.Eq(b, k('_'))))
	return m.in.decide(cond)
}

func (m *reMatcher) emptyOK(op syntax.EmptyOp, pos int) bool {
	in := m.in
	c := in.C
	n := len(m.b)
	if op&syntax.EmptyBeginText != 0 && pos != 0 {
		return false
	}
	if op&syntax.EmptyEndText != 0 && pos != n {
		return false
	}
	if op&syntax.EmptyBeginLine != 0 && pos != 0 {
		if !in.decide(c.Eq(m.b[pos-1], c.Const(8, '\n'))) {
			return false
		}
	}
	if op&syntax.EmptyEndLine != 0 && pos != n {
		if !in.decide(c.Eq(m.b[pos], c.Const(8, '\n'))) {
			return false
		}
	}
	if op&(syntax.EmptyWordBoundary|syntax.EmptyNoWordBoundary) != 0 {
		boundary := m.isWordByte(pos-1) != m.isWordByte(pos)
		if op&syntax.EmptyWordBoundary != 0 && !boundary {
			return false
		}
		if op&syntax.EmptyNoWordBoundary != 0 && boundary {
			return false
		}
	}
	return true
}

// bt is a priority-ordered backtracker (leftmost-first semantics) with a
// visited set, like regexp's own bit-state backtracker.
func (m *reMatcher) bt(pc, pos int) bool {
	for {
		key := [2]int{pc, pos}
		if m.visited[key] {
			return false
		}
		m.visited[key] = true
		inst := &m.p.prog.Inst[pc]
		switch inst.Op {
		case syntax.InstFail:
			return false
		case syntax.InstMatch:
			m.caps[1] = pos
			return true
		case syntax.InstNop:
			pc = int(inst.Out)
		case syntax.InstAlt, syntax.InstAltMatch:
			saved := append([]int{}, m.caps...)
			if m.bt(int(inst.Out), pos) {
				return true
			}
			copy(m.caps, saved)
			pc = int(inst.Arg)
		case syntax.InstCapture:
			if int(inst.Arg) < len(m.caps) {
				old := m.caps[inst.Arg]
				m.caps[inst.Arg] = pos
				if m.bt(int(inst.Out), pos) {
					return true
				}
				m.caps[inst.Arg] = old
				return false
			}
			pc = int(inst.Out)
		case syntax.InstEmptyWidth:
			if !m.emptyOK(syntax.EmptyOp(inst.Arg), pos) {
				return false
			}
			pc = int(inst.Out)
		case syntax.InstRune, syntax.InstRune1, syntax.InstRuneAny, syntax.InstRuneAnyNotNL:
			if pos >= len(m.b) {
				return false
			}
			r, w := m.decode(pos)
			if !m.in.decide(m.runeCond(inst, r)) {
				return false
			}
			pc = int(inst.Out)
			pos += w
		default:
			panic(m.in.unenc("regexp inst %v", inst.Op))
		}
	}
}

// find returns the capture positions of the leftmost-first match or nil.
func (m *reMatcher) find() []int {
	ncap := m.p.prog.NumCap
	if ncap < 2 {
		ncap = 2
	}
	if bs, ok := m.allConcrete(); ok {
		loc := m.p.native.FindSubmatchIndex(bs)
		if loc == nil {
			return nil
		}
		return loc
	}
	for start := 0; start <= len(m.b); start++ {
		m.caps = make([]int, ncap)
		for i := range m.caps {
			m.caps[i] = -1
		}
		m.caps[0] = start
		m.visited = map[[2]int]bool{}
		if m.bt(m.p.prog.Start, start) {
			return m.caps
		}
		// anchored programs cannot match later
		if m.p.prog.StartCond()&syntax.EmptyBeginText != 0 {
			break
		}
	}
	return nil
}

func asByteSlice(in *Interp, v Value) Slice {
	s := v.(Slice)
	if s.A == nil {
		return Slice{A: &ArrObj{O: in.newObj("empty"), E: []Value{}}}
	}
	return s
}

func nativeRegexpMatch(in *Interp, fn *ssa.Function, a []Value) Value {
	p := in.reOf(a[0])
	m := in.newMatcher(p, asByteSlice(in, a[1]))
	return in.C.Bool(m.find() != nil)
}

func nativeRegexpFindIndex(in *Interp, fn *ssa.Function, a []Value) Value {
	p := in.reOf(a[0])
	m := in.newMatcher(p, asByteSlice(in, a[1]))
	loc := m.find()
	if loc == nil {
		return Slice{}
	}
	arr := &ArrObj{O: in.newObj("FindIndex"), E: []Value{in.C.Const(64, uint64(loc[0])), in.C.Const(64, uint64(loc[1]))}}
	return Slice{A: arr, Len: 2, Cap: 2}
}

func nativeRegexpFindSubmatch(in *Interp, fn *ssa.Function, a []Value) Value {
	p := in.reOf(a[0])
	src := asByteSlice(in, a[1])
	m := in.newMatcher(p, src)
	loc := m.find()
	if loc == nil {
		return Slice{}
	}
	n := len(loc) / 2
	arr := &ArrObj{O: in.newObj("FindSubmatch"), E: make([]Value, n)}
	for i := 0; i < n; i++ {
		if loc[2*i] >= 0 && loc[2*i+1] >= 0 {
			arr.E[i] = Slice{A: src.A, Off: src.Off + loc[2*i], Len: loc[2*i+1] - loc[2*i], Cap: loc[2*i+1] - loc[2*i]}
		} else {
			arr.E[i] = Slice{}
		}
	}
	return Slice{A: arr, Len: n, Cap: n}
}
