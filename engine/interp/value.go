// Package interp: a forking symbolic interpreter for go/ssa.
// Heap shape, pointers, dynamic types, lengths and control are concrete per
// path; scalar contents are smt terms.
package interp

import (
	"fmt"
	"go/types"
	"strings"

	"gosym/smt"

	"golang.org/x/tools/go/ssa"
)

type Value interface{}

// Str is a Go string value. Sym==nil: the concrete string S. Otherwise Sym
// holds every byte as an 8-bit term (len(Sym) is the length).
type Str struct {
	S   string
	Sym []*smt.Term
}

func (s Str) Len() int {
	if s.Sym != nil {
		return len(s.Sym)
	}
	return len(s.S)
}

func (s Str) Concrete() (string, bool) {
	if s.Sym == nil {
		return s.S, true
	}
	b := make([]byte, len(s.Sym))
	for i, t := range s.Sym {
		if !t.IsConst() {
			return "", false
		}
		b[i] = byte(t.Val)
	}
	return string(b), true
}

// Obj identifies one allocation.
type Obj struct {
	ID    int
	Epoch int
	What  string
}

// Ptr is a concrete pointer to a slot. P==nil is the nil pointer.
type Ptr struct {
	O *Obj
	P *Value
}

// SymPtr points at Arr[Idx] with a symbolic index (scalar elements only).
type SymPtr struct {
	O   *Obj
	Arr []Value
	Idx *smt.Term // 64-bit
}

type Struct []Value
type Array []Value

type ArrObj struct {
	O *Obj
	E []Value
}

type Slice struct {
	A             *ArrObj
	Off, Len, Cap int
}

type MapV struct {
	O    *Obj
	Keys []Value
	Vals []Value
	idx  map[string]int
	nsym int // number of keys without a concrete hash
}

type Iface struct {
	T types.Type // nil: nil interface
	V Value
}

type Closure struct {
	Fn  *ssa.Function
	Env []Value
}

type Tuple []Value

// Opaque carries engine-native data (regexp programs, uninterpreted floats).
type Opaque struct {
	Kind string
	Data interface{}
}

// OpaqueNum is the uninterpreted result of strconv.ParseFloat / time.ParseDuration
// applied to exactly the bytes Arg.
type OpaqueNum struct {
	Fn  string
	Arg Str
}

// iterator state for Range/Next
type mapIter struct {
	m     *MapV
	keys  []Value
	vals  []Value
	i     int
}
type strIter struct {
	s Str
	i int
}

func copyVal(v Value) Value {
	switch x := v.(type) {
	case Struct:
		n := make(Struct, len(x))
		for i, e := range x {
			n[i] = copyVal(e)
		}
		return n
	case Array:
		n := make(Array, len(x))
		for i, e := range x {
			n[i] = copyVal(e)
		}
		return n
	}
	return v
}

func isNamedOrAlias(t types.Type) types.Type {
	return types.Unalias(t)
}

// intWidth returns the bit width and signedness of an integer-like basic type.
func intWidth(t types.Type) (w int, signed bool, ok bool) {
	b, isb := t.Underlying().(*types.Basic)
	if !isb {
		return 0, false, false
	}
	switch b.Kind() {
	case types.Bool, types.UntypedBool:
		return 0, false, true
	case types.Int8:
		return 8, true, true
	case types.Int16:
		return 16, true, true
	case types.Int32, types.UntypedRune:
		return 32, true, true
	case types.Int, types.Int64, types.UntypedInt:
		return 64, true, true
	case types.Uint8:
		return 8, false, true
	case types.Uint16:
		return 16, false, true
	case types.Uint32:
		return 32, false, true
	case types.Uint, types.Uint64, types.Uintptr:
		return 64, false, true
	}
	return 0, false, false
}

func isFloat(t types.Type) bool {
	b, ok := t.Underlying().(*types.Basic)
	return ok && b.Info()&types.IsFloat != 0
}

func isString(t types.Type) bool {
	b, ok := t.Underlying().(*types.Basic)
	return ok && b.Info()&types.IsString != 0
}

func (in *Interp) zero(t types.Type) Value {
	switch u := t.Underlying().(type) {
	case *types.Basic:
		if u.Kind() == types.UnsafePointer {
			return Ptr{}
		}
		if u.Kind() == types.UntypedNil {
			return nil
		}
		if u.Info()&types.IsString != 0 {
			return Str{}
		}
		if u.Info()&types.IsFloat != 0 {
			return float64(0)
		}
		if u.Info()&types.IsComplex != 0 {
			return complex128(0)
		}
		if w, _, ok := intWidth(u); ok {
			if w == 0 {
				return in.C.False
			}
			return in.C.Const(w, 0)
		}
	case *types.Pointer:
		return Ptr{}
	case *types.Slice:
		return Slice{}
	case *types.Map:
		return (*MapV)(nil)
	case *types.Signature:
		return (*Closure)(nil)
	case *types.Interface:
		return Iface{}
	case *types.Chan:
		return nil
	case *types.Struct:
		s := make(Struct, u.NumFields())
		for i := range s {
			s[i] = in.zero(u.Field(i).Type())
		}
		return s
	case *types.Array:
		a := make(Array, int(u.Len()))
		for i := range a {
			a[i] = in.zero(u.Elem())
		}
		return a
	case *types.Tuple:
		tu := make(Tuple, u.Len())
		for i := range tu {
			tu[i] = in.zero(u.At(i).Type())
		}
		return tu
	}
	panic(in.unenc("zero value of type %s", t))
}

// render a value for diagnostics
func (in *Interp) show(v Value) string {
	switch x := v.(type) {
	case nil:
		return "nil"
	case *smt.Term:
		return x.String()
	case Str:
		if s, ok := x.Concrete(); ok {
			return fmt.Sprintf("%q", s)
		}
		var sb strings.Builder
		sb.WriteString("str[")
		for i, b := range x.Sym {
			if i > 0 {
				sb.WriteString(" ")
			}
			sb.WriteString(b.String())
		}
		sb.WriteString("]")
		return sb.String()
	case Ptr:
		if x.P == nil {
			return "nilptr"
		}
		return fmt.Sprintf("&%s", in.show(*x.P))
	case Struct:
		var parts []string
		for _, e := range x {
			parts = append(parts, in.show(e))
		}
		return "{" + strings.Join(parts, ", ") + "}"
	case Array:
		var parts []string
		for _, e := range x {
			parts = append(parts, in.show(e))
		}
		return "[" + strings.Join(parts, ", ") + "]"
	case Slice:
		if x.A == nil {
			return "nilslice"
		}
		var parts []string
		for i := 0; i < x.Len && i < 16; i++ {
			parts = append(parts, in.show(x.A.E[x.Off+i]))
		}
		return fmt.Sprintf("slice(len %d cap %d)[%s]", x.Len, x.Cap, strings.Join(parts, ", "))
	case Iface:
		if x.T == nil {
			return "nil-iface"
		}
		return fmt.Sprintf("iface(%s, %s)", x.T, in.show(x.V))
	case *Closure:
		if x == nil {
			return "nilfunc"
		}
		return "closure " + x.Fn.String()
	case *ssa.Function:
		return "func " + x.String()
	case *MapV:
		if x == nil {
			return "nilmap"
		}
		return fmt.Sprintf("map(len %d)", len(x.Keys))
	case Tuple:
		var parts []string
		for _, e := range x {
			parts = append(parts, in.show(e))
		}
		return "(" + strings.Join(parts, ", ") + ")"
	}
	return fmt.Sprintf("%T", v)
}
