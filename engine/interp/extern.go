package interp

import (
	"fmt"
	"go/types"
	"os"
	"strconv"
	"strings"

	"gosym/smt"

	"golang.org/x/tools/go/ssa"
)

type nativeFn func(in *Interp, fn *ssa.Function, args []Value) Value

const rtPkg = "vh/rt."

func (in *Interp) concStr(v Value, what string) string {
	s, ok := v.(Str)
	if !ok {
		panic(in.unenc("%s: not a string (%T)", what, v))
	}
	cs, ok := s.Concrete()
	if !ok {
		panic(in.unenc("%s: symbolic string", what))
	}
	return cs
}

func (in *Interp) uniqueName(name string) string {
	p := in.P
	if p.nameCount == nil {
		p.nameCount = map[string]int{}
	}
	k := p.nameCount[name]
	p.nameCount[name] = k + 1
	return fmt.Sprintf("%s#%d", name, k)
}

func (in *Interp) nondet(name string, w int) *smt.Term {
	n := in.uniqueName(name)
	t := in.newVar(n, w)
	in.P.nondets = append(in.P.nondets, nondetRec{Name: n, W: w, T: t})
	return t
}

func buildNatives() map[string]nativeFn {
	m := map[string]nativeFn{}
	rt := func(name string, f nativeFn) { m[rtPkg+name] = f }
	rt("Byte", func(in *Interp, fn *ssa.Function, a []Value) Value { return in.nondet(in.concStr(a[0], "name"), 8) })
	rt("Int", func(in *Interp, fn *ssa.Function, a []Value) Value { return in.nondet(in.concStr(a[0], "name"), 64) })
	rt("Int64", func(in *Interp, fn *ssa.Function, a []Value) Value { return in.nondet(in.concStr(a[0], "name"), 64) })
	rt("Rune", func(in *Interp, fn *ssa.Function, a []Value) Value { return in.nondet(in.concStr(a[0], "name"), 32) })
	rt("Bool", func(in *Interp, fn *ssa.Function, a []Value) Value { return in.nondet(in.concStr(a[0], "name"), 0) })
	rt("IntRange", func(in *Interp, fn *ssa.Function, a []Value) Value {
		t := in.nondet(in.concStr(a[0], "name"), 64)
		lo, hi := a[1].(*smt.Term), a[2].(*smt.Term)
		if !lo.IsConst() || !hi.IsConst() {
			panic(in.unenc("IntRange with symbolic bounds"))
		}
		// build the literal before the range fact is known to the simplifier,
		// otherwise it would fold to true and never reach the path condition
		lit := in.C.And(in.C.RawSLe(lo, t), in.C.RawSLe(t, hi))
		in.assume(lit)
		in.C.SetRange(t, lo.Int64(), hi.Int64())
		return t
	})
	rt("Choose", func(in *Interp, fn *ssa.Function, a []Value) Value {
		name := in.uniqueName(in.concStr(a[0], "name"))
		k := int(in.concretize(a[1].(*smt.Term), "Choose k"))
		v := in.choose(name, k)
		in.P.nondets = append(in.P.nondets, nondetRec{Name: name, W: -1, Val: int64(v)})
		return in.C.Const(64, uint64(v))
	})
	rt("Param", func(in *Interp, fn *ssa.Function, a []Value) Value {
		name := in.concStr(a[0], "name")
		if v, ok := in.Cfg.Params[name]; ok {
			return in.C.Const(64, uint64(int64(v)))
		}
		return a[1]
	})
	rt("Assume", func(in *Interp, fn *ssa.Function, a []Value) Value { in.assume(a[0].(*smt.Term)); return nil })
	rt("Assert", func(in *Interp, fn *ssa.Function, a []Value) Value {
		in.assert(a[0].(*smt.Term), in.concStr(a[1], "assert id"), "")
		return nil
	})
	rt("Fail", func(in *Interp, fn *ssa.Function, a []Value) Value {
		in.P.failDetail = a[1]
		in.assert(in.C.False, in.concStr(a[0], "assert id"), "")
		return nil
	})
	rt("Cover", func(in *Interp, fn *ssa.Function, a []Value) Value {
		in.P.covers[in.concStr(a[0], "cover id")] = true
		return nil
	})
	rt("ObsInt", func(in *Interp, fn *ssa.Function, a []Value) Value {
		in.P.obs = append(in.P.obs, obsRec{in.concStr(a[0], "tag"), a[1]})
		return nil
	})
	rt("ObsStr", func(in *Interp, fn *ssa.Function, a []Value) Value {
		in.P.obs = append(in.P.obs, obsRec{in.concStr(a[0], "tag"), a[1]})
		return nil
	})
	rt("ObsBool", func(in *Interp, fn *ssa.Function, a []Value) Value {
		in.P.obs = append(in.P.obs, obsRec{in.concStr(a[0], "tag"), a[1]})
		return nil
	})
	rt("Note", func(in *Interp, fn *ssa.Function, a []Value) Value {
		if len(in.P.notes) < 8 {
			in.P.notes = append(in.P.notes, in.show(a[0]))
		}
		return nil
	})
	rt("Epoch", func(in *Interp, fn *ssa.Function, a []Value) Value {
		in.Epoch++
		in.P.watchEpoch = in.Epoch
		return nil
	})
	rt("ForeignStores", func(in *Interp, fn *ssa.Function, a []Value) Value {
		return in.C.Const(64, uint64(len(in.P.foreign)))
	})
	rt("ExpectPanic", func(in *Interp, fn *ssa.Function, a []Value) Value {
		in.P.covers["rt:panic-expected"] = true
		return nil
	})
	rt("PermuteMaps", func(in *Interp, fn *ssa.Function, a []Value) Value {
		if a[0].(*smt.Term).IsTrue() {
			in.P.permuteBudget = in.Cfg.PermuteRanges
		} else {
			in.P.permuteBudget = 0
		}
		return nil
	})
	rt("Symbolic", func(in *Interp, fn *ssa.Function, a []Value) Value { return in.C.True })
	rt("Concretize", func(in *Interp, fn *ssa.Function, a []Value) Value {
		t := a[0].(*smt.Term)
		return in.C.Const(t.W, uint64(in.concretize(t, "rt.Concretize")))
	})
	rt("IsConcrete", func(in *Interp, fn *ssa.Function, a []Value) Value {
		return in.C.Bool(a[0].(*smt.Term).IsConst())
	})
	rt("RunID", func(in *Interp, fn *ssa.Function, a []Value) Value { return in.C.Const(64, 0) })
	rt("Register", func(in *Interp, fn *ssa.Function, a []Value) Value { return nil })

	// ---- standard library ----
	m["errors.As"] = nativeErrorsAs
	m["fmt.Sprintf"] = func(in *Interp, fn *ssa.Function, a []Value) Value {
		return in.sprintf(in.concStr(a[0], "format"), a[1].(Slice), nil)
	}
	m["fmt.Errorf"] = nativeErrorf
	m["fmt.Sprint"] = func(in *Interp, fn *ssa.Function, a []Value) Value {
		sl := a[0].(Slice)
		var sb strings.Builder
		for i := 0; i < sl.Len; i++ {
			sb.WriteString(in.fmtArg('v', sl.A.E[sl.Off+i].(Iface)))
		}
		return Str{S: sb.String()}
	}
	m["strconv.Quote"] = func(in *Interp, fn *ssa.Function, a []Value) Value {
		return Str{S: strconv.Quote(in.concStr(a[0], "strconv.Quote argument"))}
	}
	m["strconv.Itoa"] = func(in *Interp, fn *ssa.Function, a []Value) Value {
		return Str{S: strconv.Itoa(int(in.concretize(a[0].(*smt.Term), "strconv.Itoa argument")))}
	}
	m["strings.ToUpper"] = func(in *Interp, fn *ssa.Function, a []Value) Value {
		return Str{S: strings.ToUpper(in.concStr(a[0], "strings.ToUpper argument"))}
	}
	m["strings.Repeat"] = func(in *Interp, fn *ssa.Function, a []Value) Value {
		return Str{S: strings.Repeat(in.concStr(a[0], "strings.Repeat"), int(in.concretize(a[1].(*smt.Term), "count")))}
	}
	m["internal/stringslite.Clone"] = func(in *Interp, fn *ssa.Function, a []Value) Value { return a[0] }
	m["strconv.cloneString"] = func(in *Interp, fn *ssa.Function, a []Value) Value { return a[0] }
	m["strings.Clone"] = func(in *Interp, fn *ssa.Function, a []Value) Value { return a[0] }
	m["sync/atomic.AddInt32"] = func(in *Interp, fn *ssa.Function, a []Value) Value {
		p := a[0].(Ptr)
		nv := in.C.Add((*p.P).(*smt.Term), a[1].(*smt.Term))
		in.logStore(p.O, 0, true)
		in.P.atomicOps++
		*p.P = nv
		return nv
	}
	m["sync/atomic.LoadInt32"] = func(in *Interp, fn *ssa.Function, a []Value) Value {
		p := a[0].(Ptr)
		in.P.atomicOps++
		return (*p.P).(*smt.Term)
	}
	m["sync/atomic.StoreInt32"] = func(in *Interp, fn *ssa.Function, a []Value) Value {
		p := a[0].(Ptr)
		in.logStore(p.O, 0, true)
		in.P.atomicOps++
		*p.P = a[1]
		return nil
	}
	m["sync/atomic.CompareAndSwapInt32"] = func(in *Interp, fn *ssa.Function, a []Value) Value {
		p := a[0].(Ptr)
		in.P.atomicOps++
		if in.decide(in.C.Eq((*p.P).(*smt.Term), a[1].(*smt.Term))) {
			in.logStore(p.O, 0, true)
			*p.P = a[2]
			return in.C.True
		}
		return in.C.False
	}
	// the same operations at the other integer widths
	for _, suf := range []string{"Int64", "Uint32", "Uint64", "Uintptr"} {
		m["sync/atomic.Add"+suf] = m["sync/atomic.AddInt32"]
		m["sync/atomic.Load"+suf] = m["sync/atomic.LoadInt32"]
		m["sync/atomic.Store"+suf] = m["sync/atomic.StoreInt32"]
		m["sync/atomic.CompareAndSwap"+suf] = m["sync/atomic.CompareAndSwapInt32"]
	}
	rt("AtomicOps", func(in *Interp, fn *ssa.Function, a []Value) Value {
		return in.C.Const(64, uint64(in.P.atomicOps))
	})
	m["strconv.ParseFloat"] = func(in *Interp, fn *ssa.Function, a []Value) Value {
		return in.uninterpNum("strconv.ParseFloat", a[0].(Str), float64(0), fn)
	}
	m["time.ParseDuration"] = func(in *Interp, fn *ssa.Function, a []Value) Value {
		return in.uninterpNum("time.ParseDuration", a[0].(Str), in.C.Const(64, 0), fn)
	}
	m["bytes.Replace"] = nativeBytesReplace
	// internal/bytealg primitives are assembly: modelled as the obvious loops
	// over byte terms, every comparison a decision
	byteTerms := func(in *Interp, v Value) []*smt.Term {
		switch x := v.(type) {
		case Str:
			return in.strBytes(x)
		case Slice:
			out := make([]*smt.Term, x.Len)
			for i := range out {
				out[i] = x.A.E[x.Off+i].(*smt.Term)
			}
			return out
		}
		panic(in.unenc("bytealg: unexpected argument %T", v))
	}
	indexByte := func(in *Interp, fn *ssa.Function, a []Value) Value {
		for i, b := range byteTerms(in, a[0]) {
			if in.decide(in.C.Eq(b, a[1].(*smt.Term))) {
				return in.C.Const(64, uint64(i))
			}
		}
		return in.C.Const(64, ^uint64(0))
	}
	m["internal/bytealg.IndexByte"] = indexByte
	m["internal/bytealg.IndexByteString"] = indexByte
	count := func(in *Interp, fn *ssa.Function, a []Value) Value {
		n := uint64(0)
		for _, b := range byteTerms(in, a[0]) {
			if in.decide(in.C.Eq(b, a[1].(*smt.Term))) {
				n++
			}
		}
		return in.C.Const(64, n)
	}
	m["internal/bytealg.Count"] = count
	m["internal/bytealg.CountString"] = count
	m["internal/bytealg.Equal"] = func(in *Interp, fn *ssa.Function, a []Value) Value {
		x, y := byteTerms(in, a[0]), byteTerms(in, a[1])
		if len(x) != len(y) {
			return in.C.False
		}
		eq := in.C.True
		for i := range x {
			eq = in.C.And(eq, in.C.Eq(x[i], y[i]))
		}
		return eq
	}
	index := func(in *Interp, fn *ssa.Function, a []Value) Value {
		x, y := byteTerms(in, a[0]), byteTerms(in, a[1])
		for i := 0; i+len(y) <= len(x); i++ {
			eq := in.C.True
			for k := range y {
				eq = in.C.And(eq, in.C.Eq(x[i+k], y[k]))
			}
			if in.decide(eq) {
				return in.C.Const(64, uint64(i))
			}
		}
		return in.C.Const(64, ^uint64(0))
	}
	m["internal/bytealg.Index"] = index
	m["internal/bytealg.IndexString"] = index
	// sort.Slice / sort.SliceStable go through reflection (reflectlite.Swapper):
	// modelled as a stable insertion sort that calls the real less closure on
	// the real backing array (element moves are logged as stores).
	m["sort.SliceStable"] = nativeSortSlice
	m["sort.Slice"] = nativeSortSlice
	m["regexp.MustCompile"] = nativeRegexpCompile
	m["(*regexp.Regexp).Match"] = nativeRegexpMatch
	m["(*regexp.Regexp).FindIndex"] = nativeRegexpFindIndex
	m["(*regexp.Regexp).FindSubmatch"] = nativeRegexpFindSubmatch
	return m
}

// rawCmpConst returns the term unchanged (constants are already terms).
func (in *Interp) rawCmpConst(t *smt.Term) *smt.Term { return t }

// uninterpNum models a float/duration conversion as an uninterpreted function
// of exactly the argument bytes: fresh error flag (memoised per path on the
// argument), opaque value.
func (in *Interp) uninterpNum(fname string, arg Str, zero Value, fn *ssa.Function) Value {
	p := in.P
	key := fname + ":"
	for _, b := range in.strBytes(arg) {
		key += fmt.Sprintf("%d,", b.ID)
	}
	if p.uninterp == nil {
		p.uninterp = map[string]*smt.Term{}
	}
	flag, ok := p.uninterp[key]
	if !ok {
		if cs, okc := arg.Concrete(); okc {
			// concrete argument: compute the real answer
			flag = in.C.Bool(nativeNumErr(fname, cs))
		} else {
			flag = in.newVar(in.uniqueName("stub:"+fname+".err"), 0)
			p.stubFlags = append(p.stubFlags, stubFlag{fname, arg, flag})
		}
		p.uninterp[key] = flag
	}
	errT := fn.Signature.Results().At(1).Type()
	if in.decide(flag) {
		// error result: an opaque error value
		e := Iface{T: types.NewPointer(in.lookupType("errors", "errorString")), V: in.newErrorString(fname + ": conversion error (uninterpreted)")}
		_ = errT
		return Tuple{zero, e}
	}
	return Tuple{OpaqueNum{Fn: fname, Arg: arg}, Iface{}}
}

type stubFlag struct {
	Fn   string
	Arg  Str
	Flag *smt.Term
}

func (in *Interp) lookupType(pkgPath, name string) types.Type {
	for _, p := range in.Prog.AllPackages() {
		if p.Pkg.Path() == pkgPath {
			if t := p.Type(name); t != nil {
				return t.Type()
			}
		}
	}
	panic(in.unenc("type %s.%s not in program", pkgPath, name))
}

func (in *Interp) newErrorString(msg string) Value {
	slot := new(Value)
	*slot = Struct{Str{S: msg}}
	return Ptr{O: in.newObj("errorString"), P: slot}
}

// errors.As per its documented contract.
func nativeErrorsAs(in *Interp, fn *ssa.Function, a []Value) Value {
	err := a[0].(Iface)
	tgt := a[1].(Iface)
	if tgt.T == nil {
		panic(in.goPanic("errors: target cannot be nil"))
	}
	pt, ok := tgt.T.Underlying().(*types.Pointer)
	if !ok {
		panic(in.goPanic("errors: target must be a non-nil pointer"))
	}
	tp := tgt.V.(Ptr)
	if tp.P == nil {
		panic(in.goPanic("errors: target must be a non-nil pointer"))
	}
	et := pt.Elem()
	for depth := 0; err.T != nil && depth < 100; depth++ {
		match := false
		if types.IsInterface(et) {
			match = types.Implements(err.T, et.Underlying().(*types.Interface))
		} else {
			match = types.Identical(err.T, et)
		}
		if match {
			in.logStore(tp.O, 0, false)
			if types.IsInterface(et) {
				*tp.P = err
			} else {
				*tp.P = copyVal(err.V)
			}
			return in.C.True
		}
		if m := in.findMethod(err.T, nil, "As"); m != nil && m.Signature.Params().Len() == 1 {
			r := in.callFunction(m, []Value{err.V, tgt}, nil)
			if t, ok := r.(*smt.Term); ok && in.decide(t) {
				return in.C.True
			}
		}
		m := in.findMethod(err.T, nil, "Unwrap")
		if m == nil || m.Signature.Results().Len() != 1 {
			return in.C.False
		}
		r := in.callFunction(m, []Value{err.V}, nil)
		next, ok := r.(Iface)
		if !ok {
			return in.C.False
		}
		err = next
	}
	return in.C.False
}

func nativeErrorf(in *Interp, fn *ssa.Function, a []Value) Value {
	format := in.concStr(a[0], "format")
	var wrapped *Iface
	msg := in.sprintf(format, a[1].(Slice), &wrapped)
	if wrapped == nil {
		slot := new(Value)
		*slot = Struct{msg}
		return Iface{T: types.NewPointer(in.lookupType("errors", "errorString")), V: Ptr{O: in.newObj("errorString"), P: slot}}
	}
	slot := new(Value)
	*slot = Struct{msg, *wrapped}
	return Iface{T: types.NewPointer(in.lookupType("fmt", "wrapError")), V: Ptr{O: in.newObj("wrapError"), P: slot}}
}

// sprintf is a small model of fmt.Sprintf for the verbs parsley uses.
func (in *Interp) sprintf(format string, args Slice, wrapped **Iface) Str {
	var sb symBuilder
	sb.in = in
	ai := 0
	for i := 0; i < len(format); i++ {
		ch := format[i]
		if ch != '%' {
			sb.WriteByte(ch)
			continue
		}
		i++
		if i >= len(format) {
			sb.WriteString("%!(NOVERB)")
			break
		}
		verb := format[i]
		if verb == '%' {
			sb.WriteByte('%')
			continue
		}
		if strings.IndexByte("sdvqwTcx", verb) < 0 {
			panic(in.unenc("fmt verb %%%c", verb))
		}
		if ai >= args.Len {
			sb.WriteString("%!" + string(verb) + "(MISSING)")
			continue
		}
		arg := args.A.E[args.Off+ai].(Iface)
		ai++
		if verb == 'w' {
			if wrapped != nil {
				cp := arg
				*wrapped = &cp
			}
			verb = 'v'
		}
		if sv, ok := arg.V.(Str); ok && (verb == 's' || verb == 'v') && arg.T != nil && isString(arg.T) && in.findMethod(arg.T, nil, "String") == nil && in.findMethod(arg.T, nil, "Error") == nil {
			sb.WriteStr(sv)
		} else {
			sb.WriteString(in.fmtArg(verb, arg))
		}
	}
	if ai < args.Len {
		sb.WriteString("%!(EXTRA ")
		for k := ai; k < args.Len; k++ {
			if k > ai {
				sb.WriteString(", ")
			}
			arg := args.A.E[args.Off+k].(Iface)
			if arg.T == nil {
				sb.WriteString("<nil>")
			} else {
				sb.WriteString(arg.T.String() + "=" + in.fmtArg('v', arg))
			}
		}
		sb.WriteString(")")
	}
	return sb.Str()
}

// symBuilder concatenates concrete and symbolic string pieces.
type symBuilder struct {
	in *Interp
	b  []*smt.Term
}

func (s *symBuilder) WriteByte(c byte) error {
	s.b = append(s.b, s.in.C.Const(8, uint64(c)))
	return nil
}
func (s *symBuilder) WriteString(x string) {
	for i := 0; i < len(x); i++ {
		s.b = append(s.b, s.in.C.Const(8, uint64(x[i])))
	}
}
func (s *symBuilder) WriteStr(x Str) { s.b = append(s.b, s.in.strBytes(x)...) }
func (s *symBuilder) Str() Str       { return s.in.normStr(s.b) }

func (in *Interp) fmtArg(verb byte, arg Iface) string {
	if arg.T == nil {
		if verb == 'T' {
			return "<nil>"
		}
		return "%!" + string(verb) + "(<nil>)"
	}
	if verb == 'T' {
		return arg.T.String()
	}
	// error / Stringer first (for s, v, q)
	if verb == 's' || verb == 'v' || verb == 'q' {
		for _, mn := range []string{"Error", "String"} {
			if m := in.findMethod(arg.T, nil, mn); m != nil && m.Signature.Params().Len() == 0 && m.Signature.Results().Len() == 1 && isString(m.Signature.Results().At(0).Type()) {
				if mn == "Error" && !types.Implements(arg.T, errorIface) {
					continue
				}
				r := in.callFunction(m, []Value{arg.V}, nil)
				s := in.symStrToGo(r.(Str))
				if verb == 'q' {
					return strconv.Quote(s)
				}
				return s
			}
		}
	}
	switch v := arg.V.(type) {
	case Str:
		s := in.symStrToGo(v)
		if verb == 'q' {
			return strconv.Quote(s)
		}
		if verb == 'd' {
			return "%!d(string=" + s + ")"
		}
		if verb == 'x' {
			return fmt.Sprintf("%x", s)
		}
		return s
	case *smt.Term:
		if v.W == 0 {
			b := in.decide(v)
			return fmt.Sprintf("%"+string(verb), b)
		}
		_, signed, _ := intWidth(arg.T)
		n := in.concretize(v, "fmt argument")
		if !signed {
			u := uint64(n) & (^uint64(0) >> uint(64-v.W))
			switch verb {
			case 'c':
				return string(rune(u))
			case 'q':
				return strconv.QuoteRune(rune(u))
			case 'x':
				return strconv.FormatUint(u, 16)
			case 's':
				return fmt.Sprintf("%%!s(%s=%d)", arg.T.String(), u)
			}
			return strconv.FormatUint(u, 10)
		}
		switch verb {
		case 'c':
			return string(rune(n))
		case 'q':
			return strconv.QuoteRune(rune(n))
		case 'x':
			return strconv.FormatInt(n, 16)
		case 's':
			return fmt.Sprintf("%%!s(%s=%d)", arg.T.String(), n)
		}
		return strconv.FormatInt(n, 10)
	case float64:
		return fmt.Sprintf("%"+string(verb), v)
	case Slice:
		// %v / %s of a slice of values
		var parts []string
		et := arg.T.Underlying().(*types.Slice).Elem()
		for i := 0; i < v.Len; i++ {
			e := v.A.E[v.Off+i]
			if ie, ok := e.(Iface); ok {
				parts = append(parts, in.fmtArg(verb, ie))
			} else {
				parts = append(parts, in.fmtArg(verb, Iface{T: et, V: e}))
			}
		}
		return "[" + strings.Join(parts, " ") + "]"
	case Iface:
		return in.fmtArg(verb, v)
	case OpaqueNum:
		return "<" + v.Fn + " of " + in.show(v.Arg) + ">"
	case Ptr:
		if v.P == nil {
			return "<nil>"
		}
		return "0xc000000000"
	}
	panic(in.unenc("fmt %%%c of %T (%s)", verb, arg.V, arg.T))
}

var errorIface = types.Universe.Lookup("error").Type().Underlying().(*types.Interface)

// symStrToGo renders a string for formatting; symbolic bytes are concretised.
func (in *Interp) symStrToGo(s Str) string {
	if cs, ok := s.Concrete(); ok {
		return cs
	}
	b := make([]byte, s.Len())
	for i, t := range s.Sym {
		b[i] = byte(in.concretize(t, "byte of formatted string"))
	}
	return string(b)
}

func nativeSortSlice(in *Interp, fn *ssa.Function, a []Value) Value {
	if os.Getenv("GOSYM_NOSORTMODEL") != "" {
		// self-test switch: behave as if the operation were not encoded
		panic(in.unenc("sort.Slice (model switched off)"))
	}
	ifc, ok := a[0].(Iface)
	if !ok {
		panic(in.unenc("sort.Slice on a non-interface value"))
	}
	sl, ok := ifc.V.(Slice)
	if !ok {
		panic(in.unenc("sort.Slice on a non-slice"))
	}
	less := func(i, j int) bool {
		r := in.callValue(a[1], []Value{in.C.Const(64, uint64(i)), in.C.Const(64, uint64(j))})
		t, ok := r.(*smt.Term)
		if !ok {
			panic(in.unenc("sort.Slice: less did not return a bool term"))
		}
		return in.decide(t)
	}
	// insertion sort by adjacent swaps: every comparison is less(j, j-1) on
	// the current contents, as the library contract allows
	for i := 1; i < sl.Len; i++ {
		for j := i; j > 0 && less(j, j-1); j-- {
			x, y := sl.A.E[sl.Off+j], sl.A.E[sl.Off+j-1]
			in.logStore(sl.A.O, fn.Pos(), false)
			sl.A.E[sl.Off+j], sl.A.E[sl.Off+j-1] = y, x
		}
	}
	return nil
}

// bytes.Replace(s, old, new, n) for concrete old/new, symbolic s.
func nativeBytesReplace(in *Interp, fn *ssa.Function, a []Value) Value {
	s := a[0].(Slice)
	old := a[1].(Slice)
	nw := a[2].(Slice)
	n := in.concretize(a[3].(*smt.Term), "bytes.Replace n")
	get := func(sl Slice) []*smt.Term {
		out := make([]*smt.Term, sl.Len)
		for i := range out {
			out[i] = sl.A.E[sl.Off+i].(*smt.Term)
		}
		return out
	}
	sb, ob, nb := get(s), get(old), get(nw)
	if len(ob) == 0 {
		panic(in.unenc("bytes.Replace with empty old"))
	}
	var out []Value
	i := 0
	cnt := int64(0)
	for i < len(sb) {
		if (n < 0 || cnt < n) && i+len(ob) <= len(sb) {
			eq := in.C.True
			for k := range ob {
				eq = in.C.And(eq, in.C.Eq(sb[i+k], ob[k]))
			}
			if in.decide(eq) {
				for _, t := range nb {
					out = append(out, t)
				}
				i += len(ob)
				cnt++
				continue
			}
		}
		out = append(out, sb[i])
		i++
	}
	arr := &ArrObj{O: in.newObj("bytes.Replace"), E: out}
	if out == nil {
		arr.E = []Value{}
	}
	return Slice{A: arr, Len: len(out), Cap: len(out)}
}

// digest renders the observations of the path under model m.
func (in *Interp) digest(m []uint64) []string {
	var out []string
	for _, o := range in.P.obs {
		out = append(out, o.Tag+"="+in.renderObs(o.V, m))
	}
	return out
}

func (in *Interp) renderObs(v Value, m []uint64) string {
	switch x := v.(type) {
	case *smt.Term:
		val := smt.Eval(x, m, nil)
		if x.W == 0 {
			if val == 1 {
				return "true"
			}
			return "false"
		}
		return strconv.FormatInt(smt.SignExt(val, x.W), 10)
	case Str:
		b := make([]byte, x.Len())
		for i := range b {
			if x.Sym != nil {
				b[i] = byte(smt.Eval(x.Sym[i], m, nil))
			} else {
				b[i] = x.S[i]
			}
		}
		return strconv.Quote(string(b))
	}
	return fmt.Sprintf("<%T>", v)
}

// stubDiverged reports whether, under model m, some uninterpreted conversion's
// error flag differs from what the real function returns on the model's bytes
// (such a path is an over-approximation the native run cannot follow).
func (in *Interp) stubDiverged(m []uint64) bool {
	for _, sf := range in.P.stubFlags {
		b := make([]byte, sf.Arg.Len())
		for i := range b {
			b[i] = byte(smt.Eval(in.strAt(sf.Arg, i), m, nil))
		}
		flag := smt.Eval(sf.Flag, m, nil) == 1
		if _, decided := in.P.known[sf.Flag]; !decided {
			continue
		}
		if flag != nativeNumErr(sf.Fn, string(b)) {
			return true
		}
	}
	return false
}
