package interp

import (
	"fmt"

	"gosym/smt"
)

// WorkItem is a decision prefix to explore, with a model (by variable name)
// that satisfies the path condition of the prefix.
type WorkItem struct {
	Prefix []int32
	Fp     []uint64 // structural fingerprint of every decision of the prefix
	Model  map[string]uint64
	NoModel bool
}

type nondetRec struct {
	Name string
	W    int       // 0 bool, -1 choose
	T    *smt.Term // nil for choose
	Val  int64     // for choose
}

type obsRec struct {
	Tag string
	V   Value
}

type Violation struct {
	AssertID string
	Detail   string
	Model    map[string]uint64 // by var name
	Decisions []int32
	Vector   [][2]interface{}
	Canonical bool
	Notes    []string
	Foreign  []string
}

// PathState is the state of the path currently being executed.
type PathState struct {
	prefix []int32
	prefixFp []uint64
	unsure   bool // the prefix ends in a branch whose feasibility the solver could not decide
	pos    int
	taken  []int32
	takenFp []uint64
	lits   []*smt.Term
	sent   int // lits already asserted in the solver
	model  []uint64
	modelOK bool
	dom    map[int]*[4]uint64
	multi  map[int]bool
	allMulti bool
	nondets []nondetRec
	obs    []obsRec
	covers map[string]bool
	notes  []string
	violations []Violation
	foreign []string
	watchEpoch int
	permuteBudget int
	known     map[*smt.Term]bool
	failDetail Value
	atomicOps int
	nameCount map[string]int
	uninterp  map[string]*smt.Term
	stubFlags []stubFlag
	newDecisions int
	inconclusive int
	proved int // symbolic assertions proved unsat
	concreteAsserts int
}

func (in *Interp) newPath(item *WorkItem) {
	p := &PathState{prefix: item.Prefix, prefixFp: item.Fp, dom: map[int]*[4]uint64{}, multi: map[int]bool{}, covers: map[string]bool{}}
	p.model = make([]uint64, len(in.C.VarsL), len(in.C.VarsL)+16)
	p.modelOK = !item.NoModel
	p.unsure = item.NoModel
	for name, v := range item.Model {
		// variables are declared lazily; keep the named model to seed them
		_ = name
		_ = v
	}
	in.P = p
	in.pendingModel = item.Model
	for i, vi := range in.C.VarsL {
		if v, ok := item.Model[vi.Name]; ok {
			p.model[i] = v
		}
	}
}

func (p *PathState) modelVal(id int) uint64 {
	if id < len(p.model) {
		return p.model[id]
	}
	return 0
}

// newVar declares a symbolic variable and seeds the path model for it.
func (in *Interp) newVar(name string, w int) *smt.Term {
	t := in.C.Var(name, w)
	p := in.P
	for len(p.model) <= t.VarID {
		p.model = append(p.model, 0)
	}
	if v, ok := in.pendingModel[name]; ok {
		p.model[t.VarID] = v
	}
	return t
}

// replayStep consumes one entry of the decision prefix, checking that the
// decision being replayed is the one that was recorded.
func (in *Interp) replayStep(fp uint64) int32 {
	p := in.P
	if p.pos < len(p.prefixFp) && p.prefixFp[p.pos] != fp {
		panic(&abortUnenc{"ENGINE: the decision sequence diverged while replaying a prefix"})
	}
	v := p.prefix[p.pos]
	p.pos++
	p.taken = append(p.taken, v)
	p.takenFp = append(p.takenFp, fp)
	return v
}

func (p *PathState) take(v int32, fp uint64) {
	p.taken = append(p.taken, v)
	p.takenFp = append(p.takenFp, fp)
}

func (in *Interp) evalBool(t *smt.Term) bool {
	return smt.Eval(t, in.P.model, nil) == 1
}

func fullDom() *[4]uint64 {
	return &[4]uint64{^uint64(0), ^uint64(0), ^uint64(0), ^uint64(0)}
}

func (p *PathState) domain(v int, w int) *[4]uint64 {
	d, ok := p.dom[v]
	if !ok {
		d = &[4]uint64{}
		n := 1 << uint(w)
		if w == 0 {
			n = 2
		}
		for i := 0; i < n; i++ {
			d[i/64] |= 1 << uint(i%64)
		}
		p.dom[v] = d
	}
	return d
}

// singleSmall reports whether lit depends on exactly one variable of width <= 8.
func (in *Interp) singleSmall(lit *smt.Term) (int, int, bool) {
	if lit.Many || len(lit.Vars) != 1 || lit.Size > 400 || !in.Cfg.ByteDomains {
		return 0, 0, false
	}
	vi := in.C.VarsL[lit.Vars[0]]
	if vi.W > 8 {
		return 0, 0, false
	}
	return lit.Vars[0], vi.W, true
}

// table evaluates a single-variable literal over the variable's current domain.
func (in *Interp) table(lit *smt.Term, v, w int) (sat [4]uint64) {
	p := in.P
	d := p.domain(v, w)
	n := 256
	if w < 8 {
		n = 1 << uint(w)
		if w == 0 {
			n = 2
		}
	}
	for len(p.model) <= v {
		p.model = append(p.model, 0)
	}
	saved := p.model[v]
	for x := 0; x < n; x++ {
		if d[x/64]&(1<<uint(x%64)) == 0 {
			continue
		}
		p.model[v] = uint64(x)
		if smt.Eval(lit, p.model, nil) == 1 {
			sat[x/64] |= 1 << uint(x%64)
		}
	}
	p.model[v] = saved
	return
}

func firstBit(b [4]uint64) int {
	for i := 0; i < 256; i++ {
		if b[i/64]&(1<<uint(i%64)) != 0 {
			return i
		}
	}
	return -1
}

// addLit records a literal known to be consistent with the path condition.
func (in *Interp) addLit(lit *smt.Term) {
	p := in.P
	if lit.IsTrue() {
		return
	}
	p.lits = append(p.lits, lit)
	if p.known == nil {
		p.known = map[*smt.Term]bool{}
	}
	p.known[lit] = true
	p.known[in.C.Not(lit)] = false
	if v, w, ok := in.singleSmall(lit); ok {
		t := in.table(lit, v, w)
		d := p.domain(v, w)
		for i := range d {
			d[i] &= t[i]
		}
		return
	}
	if lit.Many {
		p.allMulti = true
		return
	}
	for _, v := range lit.Vars {
		p.multi[v] = true
	}
}

// flush sends pending literals to the solver.
func (in *Interp) flush() {
	p := in.P
	for ; p.sent < len(p.lits); p.sent++ {
		in.Solver.Assert(p.lits[p.sent])
	}
}

// feasible decides whether pathcond ∧ lit is satisfiable; on Sat the path
// model is replaced/updated when adopt is set, otherwise the model is returned.
func (in *Interp) feasible(lit *smt.Term) (smt.Result, []uint64) {
	p := in.P
	if lit.IsTrue() {
		return smt.Sat, append([]uint64{}, p.model...)
	}
	if lit.IsFalse() {
		return smt.Unsat, nil
	}
	if !lit.Many && len(lit.Vars) > 1 || lit.Many {
		switch in.ivalBool(lit, 0) {
		case 0:
			in.W.Stats.DomainDecided++
			return smt.Unsat, nil
		case 1:
			if p.modelOK && in.evalBool(lit) {
				in.W.Stats.DomainDecided++
				return smt.Sat, append([]uint64{}, p.model...)
			}
		}
	}
	if v, w, ok := in.singleSmall(lit); ok {
		t := in.table(lit, v, w)
		x := firstBit(t)
		if x < 0 {
			in.W.Stats.DomainDecided++
			return smt.Unsat, nil
		}
		if !p.allMulti && !p.multi[v] && p.modelOK {
			in.W.Stats.DomainDecided++
			m := append([]uint64{}, p.model...)
			for len(m) <= v {
				m = append(m, 0)
			}
			m[v] = uint64(x)
			return smt.Sat, m
		}
	}
	in.flush()
	res, mm := in.Solver.Check(lit, in.C.VarsL, true)
	in.W.Stats.BranchQueries++
	if res != smt.Sat {
		return res, nil
	}
	m := make([]uint64, len(in.C.VarsL))
	copy(m, p.model)
	for id, v := range mm {
		m[id] = v
	}
	return smt.Sat, m
}

func (in *Interp) namedModel(m []uint64) map[string]uint64 {
	out := map[string]uint64{}
	for i, vi := range in.C.VarsL {
		if i < len(m) && m[i] != 0 {
			out[vi.Name] = m[i]
		}
	}
	return out
}

func (in *Interp) pushAlt(val int32, m []uint64, noModel bool) {
	p := in.P
	pre := make([]int32, len(p.taken)+1)
	copy(pre, p.taken)
	pre[len(p.taken)] = val
	fps := make([]uint64, len(p.takenFp)+1)
	copy(fps, p.takenFp)
	fps[len(p.takenFp)] = in.pendingFp
	it := &WorkItem{Prefix: pre, Fp: fps, NoModel: noModel}
	if m != nil {
		it.Model = in.namedModel(m)
	}
	in.W.push(it)
}

// decide resolves a branch on a symbolic condition.
func (in *Interp) decide(cond *smt.Term) bool {
	if cond.IsConst() {
		return cond.Val == 1
	}
	p := in.P
	c := in.C
	if kv, ok := p.known[cond]; ok {
		return kv
	}
	if p.pos < len(p.prefix) {
		v := in.replayStep(cond.H)
		if v == 1 {
			in.addLit(cond)
		} else {
			in.addLit(c.Not(cond))
		}
		return v == 1
	}
	in.pendingFp = cond.H
	p.newDecisions++
	if p.newDecisions+len(p.prefix) > in.Cfg.MaxDecisions {
		panic(&abortBound{fmt.Sprintf("more than %d decisions on one path", in.Cfg.MaxDecisions)})
	}
	if !p.modelOK {
		// no valid model: ask the solver about the true side first
		res, m := in.feasible(cond)
		switch res {
		case smt.Sat:
			p.model, p.modelOK = m, true
		case smt.Unsat:
			p.take(0, cond.H)
			in.addLit(c.Not(cond))
			return false
		default:
			p.inconclusive++
			panic(&abortBound{"solver inconclusive without a model"})
		}
	}
	v := in.evalBool(cond)
	var other *smt.Term
	if v {
		other = c.Not(cond)
	} else {
		other = cond
	}
	res, m := in.feasible(other)
	var alt int32
	if !v {
		alt = 1
	}
	switch res {
	case smt.Sat:
		in.pushAlt(alt, m, false)
	case smt.Unknown:
		p.inconclusive++
		in.W.Stats.BranchUnknown++
		in.pushAlt(alt, nil, true)
	}
	if v {
		p.take(1, cond.H)
		in.addLit(cond)
	} else {
		p.take(0, cond.H)
		in.addLit(c.Not(cond))
	}
	in.W.Stats.Decisions++
	return v
}

// choose forks k ways without involving the solver.
func (in *Interp) choose(name string, k int) int {
	p := in.P
	if k <= 1 {
		return 0
	}
	fp := uint64(k)*0x9E3779B97F4A7C15 + 12345
	if p.pos < len(p.prefix) {
		return int(in.replayStep(fp))
	}
	in.pendingFp = fp
	for alt := k - 1; alt >= 1; alt-- {
		in.pushAlt(int32(alt), p.model, !p.modelOK)
	}
	p.take(0, fp)
	in.W.Stats.Decisions++
	return 0
}

// concretize forces t to a single concrete value, forking over its feasible values.
func (in *Interp) concretize(t *smt.Term, what string) int64 {
	if t.IsConst() {
		return t.Int64()
	}
	c := in.C
	for n := 0; n < in.Cfg.MaxFanout; n++ {
		if !in.P.modelOK {
			// force a model
			if !in.decide(c.Eq(t, t)) {
			}
		}
		v := smt.Eval(t, in.P.model, nil)
		k := c.Const(t.W, v)
		if in.decide(c.Eq(t, k)) {
			return k.Int64()
		}
	}
	panic(in.unenc("concretisation fan-out > %d for %s", in.Cfg.MaxFanout, what))
}

// assume restricts the path to cond.
func (in *Interp) assume(cond *smt.Term) {
	if cond.IsTrue() {
		return
	}
	if cond.IsFalse() {
		panic(&abortInfeasible{})
	}
	p := in.P
	fp := cond.H ^ 0x5555
	if p.pos < len(p.prefix) {
		in.replayStep(fp)
		in.addLit(cond)
		return
	}
	if p.modelOK && in.evalBool(cond) {
		p.take(1, fp)
		in.addLit(cond)
		return
	}
	res, m := in.feasible(cond)
	switch res {
	case smt.Sat:
		p.model, p.modelOK = m, true
		p.take(1, fp)
		in.addLit(cond)
	case smt.Unsat:
		panic(&abortInfeasible{})
	default:
		p.inconclusive++
		panic(&abortBound{"assume: solver inconclusive"})
	}
}

// assert checks the property cond on the current path.
func (in *Interp) assert(cond *smt.Term, id string, detail string) {
	p := in.P
	in.W.Stats.Asserts++
	if cond.IsTrue() {
		p.concreteAsserts++
		return
	}
	record := func(m []uint64) {
		in.recordViolation(id, detail, m, cond)
	}
	if cond.IsFalse() {
		if !p.modelOK {
			in.flush()
			res, mm := in.Solver.Check(nil, in.C.VarsL, true)
			in.W.Stats.AssertQueries++
			if res != smt.Sat {
				p.inconclusive++
				panic(&abortEndPath{})
			}
			m := make([]uint64, len(in.C.VarsL))
			for idv, v := range mm {
				m[idv] = v
			}
			p.model, p.modelOK = m, true
		}
		record(p.model)
		panic(&abortEndPath{})
	}
	if p.pos < len(p.prefix) {
		// replaying a prefix: this assertion was already checked by the path
		// that generated the prefix, under the same path condition
		in.addLit(cond)
		return
	}
	// symbolic: a violation exists iff pathcond ∧ ¬cond is satisfiable
	neg := in.C.Not(cond)
	if p.modelOK && !in.evalBool(cond) {
		record(p.model)
		// continue on the side where the property holds, if feasible
		res, m := in.feasible(cond)
		if res != smt.Sat {
			panic(&abortEndPath{})
		}
		p.model = m
		in.addLit(cond)
		return
	}
	res, m := in.feasible(neg)
	in.W.Stats.AssertQueries++
	switch res {
	case smt.Sat:
		record(m)
	case smt.Unsat:
		p.proved++
		in.W.Stats.AssertProved++
	default:
		p.inconclusive++
		in.W.Stats.AssertUnknown++
		in.W.noteUnknown(id)
	}
	if !p.modelOK {
		res, m := in.feasible(cond)
		if res != smt.Sat {
			panic(&abortEndPath{})
		}
		p.model, p.modelOK = m, true
	}
	in.addLit(cond)
}

// recordViolation stores a violation with its input vector; the first few per
// path are canonicalised (lexicographically least input in the violating class).
func (in *Interp) recordViolation(id, detail string, m []uint64, cond *smt.Term) {
	p := in.P
	if in.stubDiverged(m) {
		// the model relies on an uninterpreted conversion failing (or succeeding)
		// where the real function does the opposite on these very bytes: an
		// artefact of the over-approximation, not an input of the real program
		p.failDetail = nil
		in.W.Stats.StubViolations++
		return
	}
	v := Violation{AssertID: id, Detail: detail, Decisions: append([]int32{}, p.taken...), Notes: append([]string{}, p.notes...), Foreign: append([]string{}, p.foreign...)}
	if in.W.canonBudget() {
		var extra *smt.Term
		if cond != nil && !cond.IsConst() {
			extra = in.C.Not(cond)
		}
		if cm := in.canonicalModel(extra, m); cm != nil {
			m = cm
			v.Canonical = true
		}
	}
	if p.failDetail != nil {
		v.Detail = in.renderObs(p.failDetail, m)
		p.failDetail = nil
	}
	v.Model = in.namedModel(m)
	v.Vector = in.vector(m)
	p.violations = append(p.violations, v)
}

// canonicalModel minimises the nondeterministic inputs in call order under
// pathcond ∧ extra, by binary search with solver queries.
func (in *Interp) canonicalModel(extra *smt.Term, m []uint64) []uint64 {
	p := in.P
	c := in.C
	in.flush()
	cur := make([]uint64, len(c.VarsL))
	copy(cur, m)
	var fixed []*smt.Term
	if extra != nil {
		fixed = append(fixed, extra)
	}
	queries := 0
	for _, nd := range p.nondets {
		if nd.T == nil {
			continue
		}
		t := nd.T
		if t.W == 0 {
			// prefer false
			val := cur[t.VarID] & 1
			if val == 1 {
				r, mm := in.Solver.CheckAssuming(append(append([]*smt.Term{}, fixed...), c.Not(t)), c.VarsL, true)
				queries++
				if r == smt.Sat {
					for id, v := range mm {
						cur[id] = v
					}
					val = 0
				}
			}
			if val == 1 {
				fixed = append(fixed, t)
			} else {
				fixed = append(fixed, c.Not(t))
			}
			continue
		}
		if t.W > 16 {
			// wide variables: prefer a small readable value, else keep the model's
			for small := uint64(0); small < 4 && cur[t.VarID] > small; small++ {
				r, mm := in.Solver.CheckAssuming(append(append([]*smt.Term{}, fixed...), c.Eq(t, c.Const(t.W, small))), c.VarsL, true)
				queries++
				if r == smt.Sat {
					for id, v := range mm {
						cur[id] = v
					}
					break
				}
			}
			fixed = append(fixed, c.Eq(t, c.Const(t.W, cur[t.VarID])))
			continue
		}
		lo, hi := uint64(0), cur[t.VarID]
		for lo < hi {
			mid := lo + (hi-lo)/2
			r, mm := in.Solver.CheckAssuming(append(append([]*smt.Term{}, fixed...), c.ULe(t, c.Const(t.W, mid))), c.VarsL, true)
			queries++
			if r == smt.Sat {
				for id, v := range mm {
					cur[id] = v
				}
				hi = cur[t.VarID]
				if hi > mid {
					hi = mid
				}
			} else if r == smt.Unsat {
				lo = mid + 1
			} else {
				return nil
			}
			if queries > 2000 {
				return nil
			}
		}
		cur[t.VarID] = lo
		fixed = append(fixed, c.Eq(t, c.Const(t.W, lo)))
	}
	// final confirmation
	r, mm := in.Solver.CheckAssuming(fixed, c.VarsL, true)
	if r != smt.Sat {
		return nil
	}
	for id, v := range mm {
		cur[id] = v
	}
	in.W.Stats.AssertQueries += int64(queries + 1)
	return cur
}
