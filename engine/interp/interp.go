package interp

import (
	"fmt"
	"go/constant"
	"go/token"
	"go/types"
	"strings"

	"gosym/smt"

	"golang.org/x/tools/go/ssa"
)

// ---- abort reasons (host panics recovered by the path runner) ----

// GoPanic is a Go-level panic raised by interpreted code.
type GoPanic struct {
	Val  Value
	Msg  string
	Site string
}

type abortUnenc struct{ Msg string }
type abortBound struct{ Msg string }
type abortInfeasible struct{}
type abortEndPath struct{}

type fnInfo struct {
	idx map[ssa.Value]int
	n   int
	hasDefer bool
}

type deferred struct {
	fn   Value
	args []Value
	site *ssa.Defer
}

type frame struct {
	in      *Interp
	fn      *ssa.Function
	info    *fnInfo
	locals  []Value
	env     []Value
	block   *ssa.BasicBlock
	prev    *ssa.BasicBlock
	defers  []*deferred
	result  Value
	panicking *GoPanic
	caller  *frame
}

// Interp is one worker's interpreter state.
type Interp struct {
	Prog    *ssa.Program
	C       *smt.Ctx
	Solver  *smt.Solver
	Sizes   types.Sizes
	globals map[*ssa.Global]*Value
	globObj map[*ssa.Global]*Obj
	stableGlobals map[*ssa.Global]bool // stdlib globals kept across paths
	fninfo  map[*ssa.Function]*fnInfo
	consts  map[*ssa.Const]Value
	nextObj int
	Epoch   int
	Steps, MaxSteps int64
	Depth, MaxDepth int
	P       *PathState
	Cfg     *Config
	initDone map[*ssa.Package]bool
	ForeignStores []string
	cur     *frame
	natives map[string]nativeFn
	nativeCache map[*ssa.Function]nativeFn
	growCache map[[4]int]int
	pendingModel map[string]uint64
	curInstr ssa.Instruction
	allowInit *ssa.Function
	pendingFp uint64
	W       *Worker
}

func (in *Interp) unenc(format string, a ...interface{}) *abortUnenc {
	msg := fmt.Sprintf(format, a...)
	if in.cur != nil {
		msg += " in " + in.cur.fn.String()
	}
	return &abortUnenc{msg}
}

func (in *Interp) goPanic(format string, a ...interface{}) *GoPanic {
	msg := fmt.Sprintf(format, a...)
	site := ""
	if in.cur != nil {
		site = in.cur.fn.String()
	}
	return &GoPanic{Val: Iface{T: types.Typ[types.String], V: Str{S: msg}}, Msg: "runtime error: " + msg, Site: site}
}

func (in *Interp) newObj(what string) *Obj {
	in.nextObj++
	return &Obj{ID: in.nextObj, Epoch: in.Epoch, What: what}
}

func (in *Interp) info(fn *ssa.Function) *fnInfo {
	if fi, ok := in.fninfo[fn]; ok {
		return fi
	}
	fi := &fnInfo{idx: map[ssa.Value]int{}}
	for _, p := range fn.Params {
		fi.idx[p] = fi.n
		fi.n++
	}
	for _, b := range fn.Blocks {
		for _, ins := range b.Instrs {
			if v, ok := ins.(ssa.Value); ok {
				fi.idx[v] = fi.n
				fi.n++
			}
			if _, ok := ins.(*ssa.Defer); ok {
				fi.hasDefer = true
			}
		}
	}
	in.fninfo[fn] = fi
	return fi
}

func (in *Interp) global(g *ssa.Global) Ptr {
	slot, ok := in.globals[g]
	if !ok {
		slot = new(Value)
		*slot = in.zero(g.Type().(*types.Pointer).Elem())
		in.globals[g] = slot
		o := in.newObj("global " + g.String())
		o.Epoch = 0
		in.globObj[g] = o
		// make sure the package is initialised
		in.ensureInit(g.Pkg)
	}
	return Ptr{O: in.globObj[g], P: slot}
}

// ensureInit runs the package initialiser (once per path for volatile
// packages, once per worker for stable ones).
func (in *Interp) ensureInit(pkg *ssa.Package) {
	if pkg == nil || in.initDone[pkg] {
		return
	}
	in.initDone[pkg] = true
	if !in.Cfg.runsInit(pkg.Pkg.Path()) {
		return
	}
	initFn := pkg.Func("init")
	if initFn == nil {
		return
	}
	savedEpoch := in.Epoch
	in.Epoch = 0
	savedCur := in.cur
	in.allowInit = initFn
	in.callFunction(initFn, nil, nil)
	in.cur = savedCur
	in.Epoch = savedEpoch
}

func (in *Interp) constVal(c *ssa.Const) Value {
	if v, ok := in.consts[c]; ok {
		return v
	}
	v := in.constValue(c)
	in.consts[c] = v
	return v
}

func (in *Interp) constValue(c *ssa.Const) Value {
	if c.Value == nil {
		return in.zero(c.Type())
	}
	t := c.Type().Underlying()
	if b, ok := t.(*types.Basic); ok {
		switch {
		case b.Info()&types.IsBoolean != 0:
			return in.C.Bool(constant.BoolVal(c.Value))
		case b.Info()&types.IsString != 0:
			if c.Value.Kind() == constant.String {
				return Str{S: constant.StringVal(c.Value)}
			}
			return Str{S: string(rune(c.Int64()))}
		case b.Info()&types.IsInteger != 0:
			w, _, _ := intWidth(b)
			iv := constant.ToInt(c.Value)
			if u, ok := constant.Uint64Val(iv); ok {
				return in.C.Const(w, u)
			}
			i, _ := constant.Int64Val(iv)
			return in.C.Const(w, uint64(i))
		case b.Info()&types.IsFloat != 0:
			f, _ := constant.Float64Val(c.Value)
			return f
		case b.Info()&types.IsComplex != 0:
			re, _ := constant.Float64Val(constant.Real(c.Value))
			im, _ := constant.Float64Val(constant.Imag(c.Value))
			return complex(re, im)
		}
	}
	panic(in.unenc("constant %s of type %s", c, c.Type()))
}

func (fr *frame) get(v ssa.Value) Value {
	switch x := v.(type) {
	case *ssa.Const:
		return fr.in.constVal(x)
	case *ssa.Global:
		return fr.in.global(x)
	case *ssa.Function:
		return x
	case *ssa.Builtin:
		return x
	case *ssa.FreeVar:
		for i, fv := range fr.fn.FreeVars {
			if fv == x {
				return fr.env[i]
			}
		}
		panic("free var not found")
	}
	if i, ok := fr.info.idx[v]; ok {
		return fr.locals[i]
	}
	panic(fmt.Sprintf("get: no value for %T %s in %s", v, v.Name(), fr.fn))
}

func (fr *frame) set(v ssa.Value, x Value) {
	fr.locals[fr.info.idx[v]] = x
}

// callFunction runs fn to completion and returns its result (nil, a value, or a Tuple).
func (in *Interp) callFunction(fn *ssa.Function, args []Value, env []Value) (ret Value) {
	if fn.Synthetic == "package initializer" {
		if in.allowInit != fn {
			in.ensureInit(fn.Pkg)
			return nil
		}
		in.allowInit = nil
	}
	nf, cached := in.nativeCache[fn]
	if !cached {
		nf = in.natives[fn.String()]
		in.nativeCache[fn] = nf
	}
	if nf != nil {
		return nf(in, fn, args)
	}
	if fn.Blocks == nil {
		// generic instantiation or external
		panic(in.unenc("no body for %s", fn.String()))
	}
	in.Depth++
	if in.Depth > in.MaxDepth {
		panic(&abortBound{fmt.Sprintf("call depth > %d at %s", in.MaxDepth, fn.String())})
	}
	fi := in.info(fn)
	fr := &frame{in: in, fn: fn, info: fi, locals: make([]Value, fi.n), env: env, caller: in.cur}
	for i, a := range args {
		fr.locals[i] = a
	}
	saved := in.cur
	in.cur = fr
	depth := in.Depth
	if fi.hasDefer {
		defer func() {
			if r := recover(); r != nil {
				gp, ok := r.(*GoPanic)
				if !ok {
					panic(r)
				}
				fr.panicking = gp
				in.cur = fr
				in.Depth = depth
				fr.runDefers()
				if fr.panicking != nil {
					panic(fr.panicking)
				}
				// recovered
				if fn.Recover != nil {
					fr.block = fn.Recover
					fr.prev = nil
					ret = fr.run()
				} else {
					ret = in.zeroResults(fn)
				}
				in.Depth = depth - 1
				in.cur = saved
			}
		}()
	}
	fr.block = fn.Blocks[0]
	ret = fr.run()
	in.Depth = depth - 1
	in.cur = saved
	return ret
}

func (in *Interp) zeroResults(fn *ssa.Function) Value {
	res := fn.Signature.Results()
	switch res.Len() {
	case 0:
		return nil
	case 1:
		return in.zero(res.At(0).Type())
	}
	return in.zero(res)
}

func (fr *frame) runDefers() {
	for len(fr.defers) > 0 {
		d := fr.defers[len(fr.defers)-1]
		fr.defers = fr.defers[:len(fr.defers)-1]
		fr.in.callValue(d.fn, d.args)
	}
}

func (fr *frame) run() Value {
	in := fr.in
	for {
		b := fr.block
		var next *ssa.BasicBlock
		// phis first (simultaneous)
		i := 0
		if len(b.Instrs) > 0 {
			if _, ok := b.Instrs[0].(*ssa.Phi); ok {
				var vals []Value
				for ; i < len(b.Instrs); i++ {
					phi, ok := b.Instrs[i].(*ssa.Phi)
					if !ok {
						break
					}
					for k, pred := range b.Preds {
						if pred == fr.prev {
							vals = append(vals, fr.get(phi.Edges[k]))
							break
						}
					}
				}
				for k := 0; k < i; k++ {
					fr.set(b.Instrs[k].(*ssa.Phi), vals[k])
				}
			}
		}
		for ; i < len(b.Instrs); i++ {
			in.Steps++
			if in.Steps > in.MaxSteps {
				panic(&abortBound{fmt.Sprintf("step budget %d exceeded in %s", in.MaxSteps, fr.fn)})
			}
			switch ins := b.Instrs[i].(type) {
			case *ssa.Return:
				switch len(ins.Results) {
				case 0:
					return nil
				case 1:
					return fr.get(ins.Results[0])
				}
				t := make(Tuple, len(ins.Results))
				for k, r := range ins.Results {
					t[k] = fr.get(r)
				}
				return t
			case *ssa.Jump:
				next = b.Succs[0]
			case *ssa.If:
				c := fr.get(ins.Cond).(*smt.Term)
				if in.decide(c) {
					next = b.Succs[0]
				} else {
					next = b.Succs[1]
				}
			case *ssa.Panic:
				v := fr.get(ins.X)
				panic(&GoPanic{Val: v, Msg: in.panicString(v), Site: fr.fn.String() + " " + in.Prog.Fset.Position(ins.Pos()).String()})
			default:
				in.curInstr = ins
				fr.exec(ins)
			}
		}
		if next == nil {
			panic(fmt.Sprintf("block %s of %s fell through", b, fr.fn))
		}
		fr.prev = b
		fr.block = next
	}
}

func (in *Interp) panicString(v Value) string {
	if it, ok := v.(Iface); ok {
		if it.T == nil {
			return "panic(nil)"
		}
		if s, ok := it.V.(Str); ok {
			if cs, ok := s.Concrete(); ok {
				return cs
			}
			return in.show(s)
		}
		// error or Stringer
		if m := in.findMethod(it.T, nil, "Error"); m != nil {
			r := in.callFunction(m, []Value{it.V}, nil)
			if s, ok := r.(Str); ok {
				if cs, ok := s.Concrete(); ok {
					return cs
				}
				return in.show(s)
			}
		}
		return in.show(it.V)
	}
	return in.show(v)
}

func (in *Interp) pos(p token.Pos) string {
	if !p.IsValid() {
		return "?"
	}
	ps := in.Prog.Fset.Position(p)
	f := ps.Filename
	if i := strings.LastIndex(f, "/repo/"); i >= 0 {
		f = f[i+6:]
	}
	return fmt.Sprintf("%s:%d", f, ps.Line)
}

func (fr *frame) exec(instr ssa.Instruction) {
	in := fr.in
	switch ins := instr.(type) {
	case *ssa.DebugRef:
	case *ssa.Alloc:
		slot := new(Value)
		*slot = in.zero(ins.Type().(*types.Pointer).Elem())
		fr.set(ins, Ptr{O: in.newObj("alloc"), P: slot})
	case *ssa.UnOp:
		fr.set(ins, in.unop(ins, fr.get(ins.X)))
	case *ssa.BinOp:
		fr.set(ins, in.binop(ins.Op, ins.X.Type(), ins.Y.Type(), fr.get(ins.X), fr.get(ins.Y)))
	case *ssa.Call:
		fr.set(ins, fr.doCall(&ins.Call))
	case *ssa.ChangeInterface:
		fr.set(ins, fr.get(ins.X))
	case *ssa.ChangeType:
		fr.set(ins, fr.get(ins.X))
	case *ssa.MakeInterface:
		fr.set(ins, Iface{T: ins.X.Type(), V: copyVal(fr.get(ins.X))})
	case *ssa.Convert:
		fr.set(ins, in.convert(ins.X.Type(), ins.Type(), fr.get(ins.X)))
	case *ssa.Extract:
		fr.set(ins, fr.get(ins.Tuple).(Tuple)[ins.Index])
	case *ssa.Field:
		fr.set(ins, copyVal(fr.get(ins.X).(Struct)[ins.Field]))
	case *ssa.FieldAddr:
		p := fr.get(ins.X).(Ptr)
		if p.P == nil {
			panic(in.goPanic("invalid memory address or nil pointer dereference (field %d at %s)", ins.Field, in.pos(ins.Pos())))
		}
		st := (*p.P).(Struct)
		fr.set(ins, Ptr{O: p.O, P: &st[ins.Field]})
	case *ssa.Index:
		x := fr.get(ins.X)
		switch a := x.(type) {
		case Array:
			i := in.concretizeIndex(fr.get(ins.Index).(*smt.Term), len(a), ins.Pos())
			fr.set(ins, copyVal(a[i]))
		case Str:
			i := in.concretizeIndex(fr.get(ins.Index).(*smt.Term), a.Len(), ins.Pos())
			fr.set(ins, in.strAt(a, i))
		default:
			panic(in.unenc("Index on %T", x))
		}
	case *ssa.IndexAddr:
		fr.set(ins, in.indexAddr(fr.get(ins.X), fr.get(ins.Index).(*smt.Term), ins))
	case *ssa.Lookup:
		fr.set(ins, in.lookup(ins, fr.get(ins.X), fr.get(ins.Index)))
	case *ssa.MakeClosure:
		env := make([]Value, len(ins.Bindings))
		for i, b := range ins.Bindings {
			env[i] = fr.get(b)
		}
		fr.set(ins, &Closure{Fn: ins.Fn.(*ssa.Function), Env: env})
	case *ssa.MakeMap:
		fr.set(ins, &MapV{O: in.newObj("map"), idx: map[string]int{}})
	case *ssa.MakeSlice:
		n := int(in.concretize(fr.get(ins.Len).(*smt.Term), "make len"))
		c := int(in.concretize(fr.get(ins.Cap).(*smt.Term), "make cap"))
		if n < 0 || c < n {
			panic(in.goPanic("makeslice: len out of range"))
		}
		et := ins.Type().Underlying().(*types.Slice).Elem()
		a := &ArrObj{O: in.newObj("makeslice"), E: make([]Value, c)}
		z := in.zero(et)
		for i := range a.E {
			a.E[i] = copyVal(z)
		}
		fr.set(ins, Slice{A: a, Off: 0, Len: n, Cap: c})
	case *ssa.MapUpdate:
		m := fr.get(ins.Map).(*MapV)
		if m == nil {
			panic(in.goPanic("assignment to entry in nil map"))
		}
		in.logStore(m.O, ins.Pos(), false)
		in.mapUpdate(m, fr.get(ins.Key), copyVal(fr.get(ins.Value)))
	case *ssa.Range:
		fr.set(ins, in.rangeStart(fr.get(ins.X)))
	case *ssa.Next:
		fr.set(ins, in.rangeNext(ins, fr.get(ins.Iter)))
	case *ssa.Slice:
		fr.set(ins, in.sliceOp(ins, fr))
	case *ssa.Store:
		in.store(fr.get(ins.Addr), fr.get(ins.Val), ins.Pos())
	case *ssa.TypeAssert:
		fr.set(ins, in.typeAssert(ins, fr.get(ins.X).(Iface)))
	case *ssa.Defer:
		var fn Value
		var args []Value
		if ins.Call.IsInvoke() {
			recv := fr.get(ins.Call.Value).(Iface)
			if recv.T == nil {
				panic(in.goPanic("nil interface in defer"))
			}
			fn = in.findMethod(recv.T, ins.Call.Method.Pkg(), ins.Call.Method.Name())
			args = append(args, recv.V)
		} else {
			fn = fr.get(ins.Call.Value)
		}
		for _, a := range ins.Call.Args {
			args = append(args, fr.get(a))
		}
		fr.defers = append(fr.defers, &deferred{fn: fn, args: args, site: ins})
	case *ssa.RunDefers:
		fr.runDefers()
	case *ssa.SliceToArrayPointer:
		s := fr.get(ins.X).(Slice)
		n := int(ins.Type().(*types.Pointer).Elem().Underlying().(*types.Array).Len())
		if s.Len < n {
			panic(in.goPanic("cannot convert slice with length %d to array or pointer to array with length %d", s.Len, n))
		}
		slot := new(Value)
		if s.A != nil {
			*slot = Array(s.A.E[s.Off : s.Off+n : s.Off+n])
			fr.set(ins, Ptr{O: s.A.O, P: slot})
		} else {
			*slot = Array{}
			fr.set(ins, Ptr{O: in.newObj("s2ap"), P: slot})
		}
	default:
		panic(in.unenc("instruction %T (%s)", instr, instr))
	}
}

func (fr *frame) doCall(c *ssa.CallCommon) Value {
	in := fr.in
	if c.IsInvoke() {
		recv := fr.get(c.Value).(Iface)
		if recv.T == nil {
			panic(in.goPanic("invalid memory address or nil pointer dereference (method %s on nil interface at %s)", c.Method.Name(), in.pos(c.Pos())))
		}
		fn := in.findMethod(recv.T, c.Method.Pkg(), c.Method.Name())
		if fn == nil {
			panic(in.unenc("method %s not found on %s", c.Method.Name(), recv.T))
		}
		args := make([]Value, 0, len(c.Args)+1)
		args = append(args, recv.V)
		for _, a := range c.Args {
			args = append(args, fr.get(a))
		}
		return in.callFunction(fn, args, nil)
	}
	fnv := fr.get(c.Value)
	args := make([]Value, len(c.Args))
	for i, a := range c.Args {
		args[i] = fr.get(a)
	}
	if b, ok := fnv.(*ssa.Builtin); ok {
		return in.callBuiltin(b, args, c)
	}
	return in.callValue(fnv, args)
}

func (in *Interp) callValue(fnv Value, args []Value) Value {
	switch f := fnv.(type) {
	case *ssa.Function:
		return in.callFunction(f, args, nil)
	case *Closure:
		if f == nil {
			panic(in.goPanic("invalid memory address or nil pointer dereference (call of nil func)"))
		}
		return in.callFunction(f.Fn, args, f.Env)
	case *ssa.Builtin:
		return in.callBuiltin(f, args, nil)
	}
	panic(in.unenc("call of %T", fnv))
}

func (in *Interp) findMethod(t types.Type, pkg *types.Package, name string) *ssa.Function {
	ms := in.Prog.MethodSets.MethodSet(t)
	sel := ms.Lookup(pkg, name)
	if sel == nil {
		// exported method: pkg irrelevant
		for i := 0; i < ms.Len(); i++ {
			if ms.At(i).Obj().Name() == name {
				sel = ms.At(i)
				break
			}
		}
		if sel == nil {
			return nil
		}
	}
	return in.Prog.MethodValue(sel)
}

// ---- memory ----

func (in *Interp) logStore(o *Obj, pos token.Pos, atomic bool) {
	if o == nil || atomic || !in.Cfg.TrackStores {
		return
	}
	if in.Epoch > 0 && o.Epoch < in.Epoch && in.P != nil && in.P.watchEpoch > 0 && o.Epoch < in.P.watchEpoch {
		site := in.pos(pos)
		if in.cur != nil {
			site += " (" + in.cur.fn.String() + ")"
		}
		in.P.foreign = append(in.P.foreign, fmt.Sprintf("%s -> %s", site, o.What))
	}
}

func (in *Interp) load(addr Value, pos token.Pos) Value {
	switch p := addr.(type) {
	case Ptr:
		if p.P == nil {
			panic(in.goPanic("invalid memory address or nil pointer dereference (load at %s)", in.pos(pos)))
		}
		return copyVal(*p.P)
	case SymPtr:
		return in.symLoad(p.Arr, p.Idx)
	}
	panic(in.unenc("load from %T", addr))
}

func (in *Interp) store(addr Value, v Value, pos token.Pos) {
	switch p := addr.(type) {
	case Ptr:
		if p.P == nil {
			panic(in.goPanic("invalid memory address or nil pointer dereference (store at %s)", in.pos(pos)))
		}
		in.logStore(p.O, pos, false)
		*p.P = copyVal(v)
		return
	case SymPtr:
		in.logStore(p.O, pos, false)
		nv, ok := v.(*smt.Term)
		if !ok {
			panic(in.unenc("symbolic-index store of %T", v))
		}
		for i := range p.Arr {
			old, ok := p.Arr[i].(*smt.Term)
			if !ok {
				panic(in.unenc("symbolic-index store into %T", p.Arr[i]))
			}
			p.Arr[i] = in.C.Ite(in.C.Eq(p.Idx, in.C.Const(64, uint64(i))), nv, old)
		}
		return
	}
	panic(in.unenc("store to %T", addr))
}

// symLoad reads Arr[idx] for a symbolic in-range idx.
func (in *Interp) symLoad(arr []Value, idx *smt.Term) Value {
	allConst := true
	for _, e := range arr {
		t, ok := e.(*smt.Term)
		if !ok {
			// non-scalar elements: concretise the index
			i := in.concretize(idx, "symbolic index of non-scalar element")
			return copyVal(arr[i])
		}
		if !t.IsConst() {
			allConst = false
		}
	}
	if len(arr) == 0 {
		panic(in.goPanic("index out of range"))
	}
	c := in.C
	rangeCond := func(lo, hi int) *smt.Term {
		if lo == hi {
			return c.Eq(idx, c.Const(64, uint64(lo)))
		}
		return c.And(c.ULe(c.Const(64, uint64(lo)), idx), c.ULe(idx, c.Const(64, uint64(hi))))
	}
	if allConst {
		// partition by distinct value; fork when few, else ite chain
		type run struct{ lo, hi int }
		runsOf := map[*smt.Term][]run{}
		var order []*smt.Term
		start := 0
		for i := 1; i <= len(arr); i++ {
			if i == len(arr) || arr[i].(*smt.Term) != arr[start].(*smt.Term) {
				v := arr[start].(*smt.Term)
				if _, ok := runsOf[v]; !ok {
					order = append(order, v)
				}
				runsOf[v] = append(runsOf[v], run{start, i - 1})
				start = i
			}
		}
		if len(order) <= 24 {
			for k, v := range order {
				if k == len(order)-1 {
					return v
				}
				cond := c.False
				for _, r := range runsOf[v] {
					cond = c.Or(cond, rangeCond(r.lo, r.hi))
				}
				if in.decide(cond) {
					return v
				}
			}
		}
	}
	// ite chain over runs of pointer-identical elements
	type run2 struct {
		lo, hi int
		v      *smt.Term
	}
	var runs []run2
	st := 0
	for i := 1; i <= len(arr); i++ {
		if i == len(arr) || arr[i].(*smt.Term) != arr[st].(*smt.Term) {
			runs = append(runs, run2{st, i - 1, arr[st].(*smt.Term)})
			st = i
		}
	}
	res := runs[len(runs)-1].v
	for k := len(runs) - 2; k >= 0; k-- {
		res = c.Ite(rangeCond(runs[k].lo, runs[k].hi), runs[k].v, res)
	}
	return res
}

func (in *Interp) indexAddr(x Value, idx *smt.Term, ins *ssa.IndexAddr) Value {
	var elems []Value
	var o *Obj
	switch a := x.(type) {
	case Slice:
		if a.A != nil {
			elems = a.A.E[a.Off : a.Off+a.Len]
			o = a.A.O
		}
	case Ptr:
		if a.P == nil {
			panic(in.goPanic("nil pointer dereference (index of nil array pointer at %s)", in.pos(ins.Pos())))
		}
		elems = (*a.P).(Array)
		o = a.O
	default:
		panic(in.unenc("IndexAddr on %T", x))
	}
	if idx.W != 64 {
		_, signed, _ := intWidth(ins.Index.Type())
		if signed {
			idx = in.C.SExt(idx, 64)
		} else {
			idx = in.C.ZExt(idx, 64)
		}
	}
	if idx.IsConst() {
		i := idx.Int64()
		if i < 0 || i >= int64(len(elems)) {
			panic(in.goPanic("index out of range [%d] with length %d (at %s)", i, len(elems), in.pos(ins.Pos())))
		}
		return Ptr{O: o, P: &elems[i]}
	}
	inb := in.C.ULt(idx, in.C.Const(64, uint64(len(elems))))
	if !in.decide(inb) {
		panic(in.goPanic("index out of range [symbolic] with length %d (at %s)", len(elems), in.pos(ins.Pos())))
	}
	// scalar elements: stay symbolic; otherwise concretise
	if len(elems) > 0 {
		if _, ok := elems[0].(*smt.Term); ok {
			return SymPtr{O: o, Arr: elems, Idx: idx}
		}
	}
	i := in.concretize(idx, "index")
	return Ptr{O: o, P: &elems[i]}
}

func (in *Interp) concretizeIndex(idx *smt.Term, n int, pos token.Pos) int {
	if !idx.IsConst() {
		if idx.W != 64 {
			idx = in.C.ZExt(idx, 64)
		}
		if !in.decide(in.C.ULt(idx, in.C.Const(64, uint64(n)))) {
			panic(in.goPanic("index out of range [symbolic] with length %d (at %s)", n, in.pos(pos)))
		}
		return int(in.concretize(idx, "index"))
	}
	i := idx.Int64()
	if idx.W != 64 {
		i = int64(idx.Val)
	}
	if i < 0 || i >= int64(n) {
		panic(in.goPanic("index out of range [%d] with length %d (at %s)", i, n, in.pos(pos)))
	}
	return int(i)
}

func (in *Interp) sliceOp(ins *ssa.Slice, fr *frame) Value {
	x := fr.get(ins.X)
	getI := func(v ssa.Value, def int) int {
		if v == nil {
			return def
		}
		t := fr.get(v).(*smt.Term)
		if t.W != 64 {
			t = in.C.ZExt(t, 64)
		}
		return int(in.concretize(t, "slice bound"))
	}
	switch a := x.(type) {
	case Str:
		n := a.Len()
		lo := getI(ins.Low, 0)
		hi := getI(ins.High, n)
		if lo < 0 || hi < lo || hi > n {
			panic(in.goPanic("slice bounds out of range [%d:%d] with length %d (at %s)", lo, hi, n, in.pos(ins.Pos())))
		}
		if a.Sym == nil {
			return Str{S: a.S[lo:hi]}
		}
		return in.normStr(a.Sym[lo:hi:hi])
	case Slice:
		lo := getI(ins.Low, 0)
		hi := getI(ins.High, a.Len)
		max := getI(ins.Max, a.Cap)
		if lo < 0 || hi < lo || max < hi || max > a.Cap {
			panic(in.goPanic("slice bounds out of range [%d:%d:%d] with capacity %d (at %s)", lo, hi, max, a.Cap, in.pos(ins.Pos())))
		}
		if a.A == nil {
			return Slice{}
		}
		return Slice{A: a.A, Off: a.Off + lo, Len: hi - lo, Cap: max - lo}
	case Ptr: // *array
		if a.P == nil {
			panic(in.goPanic("nil pointer dereference (slice of nil array pointer)"))
		}
		arr := (*a.P).(Array)
		n := len(arr)
		lo := getI(ins.Low, 0)
		hi := getI(ins.High, n)
		max := getI(ins.Max, n)
		if lo < 0 || hi < lo || max < hi || max > n {
			panic(in.goPanic("slice bounds out of range [%d:%d:%d] with capacity %d (at %s)", lo, hi, max, n, in.pos(ins.Pos())))
		}
		o := a.O
		if o == nil {
			o = in.newObj("array")
		}
		return Slice{A: &ArrObj{O: o, E: arr}, Off: lo, Len: hi - lo, Cap: max - lo}
	}
	panic(in.unenc("Slice on %T", x))
}

func (in *Interp) typeAssert(ins *ssa.TypeAssert, x Iface) Value {
	ok := false
	if x.T != nil {
		if types.IsInterface(ins.AssertedType) {
			ok = types.Implements(x.T, ins.AssertedType.Underlying().(*types.Interface))
		} else {
			ok = types.Identical(x.T, ins.AssertedType)
		}
	}
	var res Value
	if ok {
		if types.IsInterface(ins.AssertedType) {
			res = x
		} else {
			res = copyVal(x.V)
		}
	} else {
		if !ins.CommaOk {
			from := "nil"
			if x.T != nil {
				from = x.T.String()
			}
			panic(in.goPanic("interface conversion: interface is %s, not %s (at %s)", from, ins.AssertedType, in.pos(ins.Pos())))
		}
		res = in.zero(ins.AssertedType)
	}
	if ins.CommaOk {
		return Tuple{res, in.C.Bool(ok)}
	}
	return res
}
