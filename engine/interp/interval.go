package interp

import (
	"math/bits"

	"gosym/smt"
)

// Unsigned interval analysis over terms, using the path's byte domains and
// range facts. It is an over-approximation: it may only be used to declare a
// literal infeasible (or implied), never the opposite.

func (in *Interp) ival(t *smt.Term, depth int) (lo, hi uint64, ok bool) {
	if t.W == 0 || depth > 200 {
		return 0, 0, false
	}
	full := ^uint64(0)
	if t.W < 64 {
		full = (uint64(1) << uint(t.W)) - 1
	}
	switch t.Op {
	case smt.OpConst:
		return t.Val, t.Val, true
	case smt.OpVar:
		if t.W <= 8 {
			d := in.P.domain(t.VarID, t.W)
			lo, hi = 255, 0
			any := false
			for x := 0; x < 256; x++ {
				if d[x/64]&(1<<uint(x%64)) != 0 {
					any = true
					if uint64(x) < lo {
						lo = uint64(x)
					}
					if uint64(x) > hi {
						hi = uint64(x)
					}
				}
			}
			if !any {
				return 0, 0, false
			}
			return lo, hi, true
		}
		vi := in.C.VarsL[t.VarID]
		if vi.HasRng && vi.Lo >= 0 {
			return uint64(vi.Lo), uint64(vi.Hi), true
		}
		return 0, full, true
	case smt.OpZExt:
		return in.ival(t.Args[0], depth+1)
	case smt.OpExtract:
		l, h, ok := in.ival(t.Args[0], depth+1)
		if ok && t.Val&0xff == 0 && h <= full {
			return l, h, true
		}
		return 0, full, true
	case smt.OpAdd:
		l1, h1, ok1 := in.ival(t.Args[0], depth+1)
		l2, h2, ok2 := in.ival(t.Args[1], depth+1)
		if ok1 && ok2 {
			s, c := bits.Add64(h1, h2, 0)
			if c == 0 && s <= full {
				return l1 + l2, s, true
			}
			// constant offsets that wrap for every value (x + (-k) with x >= k)
			if t.Args[1].IsConst() {
				k := (full - t.Args[1].Val + 1) & full // t = x - k
				if l1 >= k {
					return l1 - k, h1 - k, true
				}
			}
		}
		return 0, full, true
	case smt.OpSub:
		l1, h1, ok1 := in.ival(t.Args[0], depth+1)
		l2, h2, ok2 := in.ival(t.Args[1], depth+1)
		if ok1 && ok2 && l1 >= h2 {
			return l1 - h2, h1 - l2, true
		}
		return 0, full, true
	case smt.OpMul:
		l1, h1, ok1 := in.ival(t.Args[0], depth+1)
		l2, h2, ok2 := in.ival(t.Args[1], depth+1)
		if ok1 && ok2 {
			hh, hl := bits.Mul64(h1, h2)
			if hh == 0 && hl <= full {
				return l1 * l2, hl, true
			}
		}
		return 0, full, true
	case smt.OpBAnd:
		_, h1, ok1 := in.ival(t.Args[0], depth+1)
		_, h2, ok2 := in.ival(t.Args[1], depth+1)
		if ok1 && ok2 {
			if h2 < h1 {
				h1 = h2
			}
			return 0, h1, true
		}
		return 0, full, true
	case smt.OpLShr:
		l1, h1, ok1 := in.ival(t.Args[0], depth+1)
		if ok1 && t.Args[1].IsConst() && t.Args[1].Val < 64 {
			return l1 >> t.Args[1].Val, h1 >> t.Args[1].Val, true
		}
		return 0, full, true
	case smt.OpIte:
		l1, h1, ok1 := in.ival(t.Args[1], depth+1)
		l2, h2, ok2 := in.ival(t.Args[2], depth+1)
		if ok1 && ok2 {
			if l2 < l1 {
				l1 = l2
			}
			if h2 > h1 {
				h1 = h2
			}
			return l1, h1, true
		}
	}
	return 0, full, true
}

// ivalBool: 1 = implied true, 0 = implied false, -1 = unknown.
func (in *Interp) ivalBool(t *smt.Term, depth int) int {
	if !in.Cfg.Intervals || depth > 50 {
		return -1
	}
	switch t.Op {
	case smt.OpConst:
		return int(t.Val)
	case smt.OpNot:
		r := in.ivalBool(t.Args[0], depth+1)
		if r < 0 {
			return -1
		}
		return 1 - r
	case smt.OpAnd:
		a, b := in.ivalBool(t.Args[0], depth+1), in.ivalBool(t.Args[1], depth+1)
		if a == 0 || b == 0 {
			return 0
		}
		if a == 1 && b == 1 {
			return 1
		}
		return -1
	case smt.OpOr:
		a, b := in.ivalBool(t.Args[0], depth+1), in.ivalBool(t.Args[1], depth+1)
		if a == 1 || b == 1 {
			return 1
		}
		if a == 0 && b == 0 {
			return 0
		}
		return -1
	case smt.OpULt, smt.OpULe:
		a, b := t.Args[0], t.Args[1]
		// (x + y) <u x  <=>  the addition wraps
		if t.Op == smt.OpULt && a.Op == smt.OpAdd && (a.Args[0] == b || a.Args[1] == b) {
			_, h1, ok1 := in.ival(a.Args[0], 0)
			_, h2, ok2 := in.ival(a.Args[1], 0)
			if ok1 && ok2 {
				s, c := bits.Add64(h1, h2, 0)
				full := ^uint64(0)
				if a.W < 64 {
					full = (uint64(1) << uint(a.W)) - 1
				}
				if c == 0 && s <= full {
					return 0
				}
			}
		}
		l1, h1, ok1 := in.ival(a, 0)
		l2, h2, ok2 := in.ival(b, 0)
		if !ok1 || !ok2 {
			return -1
		}
		if t.Op == smt.OpULt {
			if h1 < l2 {
				return 1
			}
			if l1 >= h2 {
				return 0
			}
		} else {
			if h1 <= l2 {
				return 1
			}
			if l1 > h2 {
				return 0
			}
		}
	case smt.OpEq:
		if t.Args[0].W == 0 {
			return -1
		}
		l1, h1, ok1 := in.ival(t.Args[0], 0)
		l2, h2, ok2 := in.ival(t.Args[1], 0)
		if ok1 && ok2 && (h1 < l2 || h2 < l1) {
			return 0
		}
	}
	return -1
}
