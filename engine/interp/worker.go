package interp

import (
	"fmt"
	"go/types"
	"os"
	"runtime"
	"sort"
	"strings"
	"sync"
	"time"

	"gosym/smt"

	"golang.org/x/tools/go/ssa"
)

// Config controls one harness exploration.
type Config struct {
	Params        map[string]int
	MaxSteps      int64
	MaxDepth      int
	MaxDecisions  int
	MaxFanout     int
	MaxPaths      int64
	ByteDomains   bool
	Intervals     bool
	TrackStores   bool
	PermuteMaps   bool
	PermuteRanges int
	ConfirmPaths  bool // one solver query per finished path (certified model)
	SolverKind    string
	TimeoutMs     int
	Workers       int
	VolatilePkgs  []string        // package path prefixes whose init is re-run for every path
	StablePkgs    map[string]bool // stdlib packages whose init runs once per worker
	SampleEvery   int             // keep every k-th finished path as a validation sample
	Seed          int64
	Debug         bool
	Deadline      time.Time
	// StopAfterViolations: once this many violating paths (not counting the
	// assertion ids in IgnoreForStop: recorded known findings) have been seen,
	// no further paths are started: the verdict of the harness is settled.
	StopAfterViolations int
	IgnoreForStop       map[string]bool
}

func (c *Config) runsInit(path string) bool {
	if c.StablePkgs[path] {
		return true
	}
	return c.isVolatile(path)
}

func (c *Config) isVolatile(path string) bool {
	for _, p := range c.VolatilePkgs {
		if path == p || strings.HasPrefix(path, p+"/") {
			return true
		}
	}
	return false
}

type Stats struct {
	Paths, PathsOK, Infeasible, Unenc, Bound, GoPanics     int64
	Decisions, DomainDecided, BranchQueries, BranchUnknown int64
	Asserts, AssertQueries, AssertProved, AssertUnknown    int64
	ConfirmQueries, ConfirmBad                             int64
	Steps                                                  int64
	Inconclusive                                           int64
	ConcreteAsserts                                        int64
	StubViolations                                         int64
}

func (s *Stats) add(o *Stats) {
	s.Paths += o.Paths
	s.PathsOK += o.PathsOK
	s.Infeasible += o.Infeasible
	s.Unenc += o.Unenc
	s.Bound += o.Bound
	s.GoPanics += o.GoPanics
	s.Decisions += o.Decisions
	s.DomainDecided += o.DomainDecided
	s.BranchQueries += o.BranchQueries
	s.BranchUnknown += o.BranchUnknown
	s.Asserts += o.Asserts
	s.AssertQueries += o.AssertQueries
	s.AssertProved += o.AssertProved
	s.AssertUnknown += o.AssertUnknown
	s.ConfirmQueries += o.ConfirmQueries
	s.ConfirmBad += o.ConfirmBad
	s.Steps += o.Steps
	s.Inconclusive += o.Inconclusive
	s.ConcreteAsserts += o.ConcreteAsserts
	s.StubViolations += o.StubViolations
}

// PathResult is what one finished path reports.
type PathResult struct {
	Outcome      string // ok, panic, infeasible, unencodable, bound
	Msg          string
	Vector       [][2]interface{} // nondet name, value in call order
	Digest       []string
	Covers       []string
	Notes        []string
	Violations   []Violation
	Foreign      []string
	Decisions    int
	Steps        int64
	Unconfirmed  bool // the solver gave no verdict on the finished path condition: no certified model
	StubDiverged bool // an uninterpreted conversion's error flag differs from the real function on the model's bytes
}

// Explorer runs one harness over all paths with a pool of workers.
type Explorer struct {
	Prog   *ssa.Program
	Fn     *ssa.Function
	Cfg    *Config
	mu     sync.Mutex
	cond   *sync.Cond
	stack  []*WorkItem
	active int
	stop   bool
	// results
	Stats                                                              Stats
	Violations                                                         []PathResult
	Samples                                                            []PathResult
	Covers                                                             map[string]int64
	Unenc                                                              map[string]int64
	Bounds                                                             map[string]int64
	Panics                                                             map[string]int64
	FuncsSeen                                                          map[string]bool
	SolverWall                                                         time.Duration
	SolverLongest                                                      time.Duration
	SolverQueries, SolverSat, SolverUnsat, SolverUnknown, SolverErrors int
	finished                                                           int64
	StubDiverged                                                       int64
	Unconfirmed                                                        int64
	canon                                                              int
	violPerID                                                          map[string]int
	stopCount                                                          int
	StoppedOnViolations                                                bool
	UnknownAsserts                                                     map[string]int64
	UnencPaths                                                         []PathResult // paths the engine could not carry on with, with the model reached so far
	BoundPaths                                                         []PathResult // paths that exhausted the step/depth budget, with the model reached so far
	Truncated                                                          bool
}

type Worker struct {
	ex    *Explorer
	in    *Interp
	Stats Stats
}

func (w *Worker) noteUnknown(id string) {
	ex := w.ex
	ex.mu.Lock()
	defer ex.mu.Unlock()
	if ex.UnknownAsserts == nil {
		ex.UnknownAsserts = map[string]int64{}
	}
	ex.UnknownAsserts[id]++
}

func (w *Worker) canonBudget() bool {
	ex := w.ex
	ex.mu.Lock()
	defer ex.mu.Unlock()
	ex.canon++
	return ex.canon <= 40
}

func (w *Worker) push(it *WorkItem) {
	ex := w.ex
	ex.mu.Lock()
	ex.stack = append(ex.stack, it)
	ex.mu.Unlock()
	ex.cond.Signal()
}

func (ex *Explorer) pop() *WorkItem {
	ex.mu.Lock()
	defer ex.mu.Unlock()
	for {
		if ex.stop {
			return nil
		}
		if n := len(ex.stack); n > 0 {
			it := ex.stack[n-1]
			ex.stack = ex.stack[:n-1]
			ex.active++
			return it
		}
		if ex.active == 0 {
			ex.stop = true
			ex.cond.Broadcast()
			return nil
		}
		ex.cond.Wait()
	}
}

func (ex *Explorer) done() {
	ex.mu.Lock()
	ex.active--
	if ex.active == 0 && len(ex.stack) == 0 {
		ex.stop = true
	}
	ex.mu.Unlock()
	ex.cond.Broadcast()
}

var traceOn = os.Getenv("GOSYM_TRACE") != ""

// Run explores all paths of the harness.
func (ex *Explorer) Run() error {
	ex.cond = sync.NewCond(&ex.mu)
	ex.Covers = map[string]int64{}
	ex.Unenc = map[string]int64{}
	ex.Bounds = map[string]int64{}
	ex.Panics = map[string]int64{}
	ex.FuncsSeen = map[string]bool{}
	ex.stack = []*WorkItem{{}}
	n := ex.Cfg.Workers
	if n <= 0 {
		n = 1
	}
	var wg sync.WaitGroup
	errs := make(chan error, n)
	if os.Getenv("GOSYM_PROGRESS") != "" {
		go func() {
			for {
				time.Sleep(3 * time.Second)
				ex.mu.Lock()
				fmt.Fprintf(os.Stderr, "[progress] finished=%d stack=%d active=%d violations=%d\n", ex.finished, len(ex.stack), ex.active, len(ex.Violations))
				st := ex.stop
				ex.mu.Unlock()
				if st {
					return
				}
			}
		}()
	}
	for i := 0; i < n; i++ {
		wg.Add(1)
		go func(id int) {
			defer wg.Done()
			if err := ex.worker(id); err != nil {
				errs <- err
				ex.mu.Lock()
				ex.stop = true
				ex.mu.Unlock()
				ex.cond.Broadcast()
			}
		}(i)
	}
	wg.Wait()
	select {
	case err := <-errs:
		return err
	default:
	}
	return nil
}

func (ex *Explorer) worker(id int) (err error) {
	s, e := smt.StartSolver(ex.Cfg.SolverKind, ex.Cfg.TimeoutMs)
	if e != nil {
		return e
	}
	defer s.Close()
	if ex.Cfg.Debug && id == 0 {
		f, _ := os.Create(fmt.Sprintf("/tmp/gosym-solver-%d.smt2", os.Getpid()))
		if f != nil {
			s.Log = f
			defer f.Close()
		}
	}
	w := &Worker{ex: ex}
	in := NewInterp(ex.Prog, ex.Cfg, s)
	in.W = w
	w.in = in
	for {
		it := ex.pop()
		if it == nil {
			break
		}
		res := in.RunPath(ex.Fn, it)
		ex.record(w, res)
		ex.done()
	}
	ex.mu.Lock()
	ex.Stats.add(&w.Stats)
	for f := range in.fninfo {
		ex.FuncsSeen[f.String()] = true
	}
	ex.SolverWall += s.Wall
	if s.Longest > ex.SolverLongest {
		ex.SolverLongest = s.Longest
	}
	ex.SolverQueries += s.Queries
	ex.SolverSat += s.NSat
	ex.SolverUnsat += s.NUnsat
	ex.SolverUnknown += s.NUnknown
	ex.SolverErrors += s.Errors
	ex.mu.Unlock()
	return nil
}

func (ex *Explorer) record(w *Worker, r *PathResult) {
	ex.mu.Lock()
	defer ex.mu.Unlock()
	ex.finished++
	if traceOn {
		fmt.Fprintf(os.Stderr, "[path %d] %s dec=%d steps=%d viol=%d vec=%v %s dig=%v\n", ex.finished, r.Outcome, r.Decisions, r.Steps, len(r.Violations), r.Vector, r.Msg, r.Digest)
	}
	for _, c := range r.Covers {
		ex.Covers[c]++
	}
	switch r.Outcome {
	case "unencodable":
		ex.Unenc[r.Msg]++
		if len(r.Vector) > 0 && ex.Unenc[r.Msg] <= 3 && len(ex.UnencPaths) < 12 {
			ex.UnencPaths = append(ex.UnencPaths, *r)
		}
	case "bound":
		ex.Bounds[r.Msg+" "+strings.Join(r.Notes, ";")+" "+fmt.Sprint(r.Vector)]++
		if len(r.Vector) > 0 && len(ex.BoundPaths) < 12 {
			ex.BoundPaths = append(ex.BoundPaths, *r)
		}
	case "panic":
		ex.Panics[r.Msg]++
	}
	if len(r.Violations) > 0 {
		if ex.violPerID == nil {
			ex.violPerID = map[string]int{}
		}
		id := r.Violations[0].AssertID
		ex.violPerID[id]++
		if !ex.Cfg.IgnoreForStop[id] {
			ex.stopCount++
			if ex.Cfg.StopAfterViolations > 0 && ex.stopCount >= ex.Cfg.StopAfterViolations {
				ex.stop = true
				ex.Truncated = true
				ex.StoppedOnViolations = true
			}
		}
		if ex.violPerID[id] <= 30 && len(ex.Violations) < 600 {
			ex.Violations = append(ex.Violations, *r)
		}
	}
	if r.StubDiverged {
		ex.StubDiverged++
	}
	if r.Unconfirmed {
		ex.Unconfirmed++
	}
	if (r.Outcome == "ok" || r.Outcome == "panic") && len(r.Violations) == 0 && !r.StubDiverged && !r.Unconfirmed {
		k := int64(ex.Cfg.SampleEvery)
		if k <= 0 {
			k = 1
		}
		if (ex.finished+ex.Cfg.Seed)%k == 0 && len(ex.Samples) < 400 {
			ex.Samples = append(ex.Samples, *r)
		}
	}
	if ex.Cfg.MaxPaths > 0 && ex.finished >= ex.Cfg.MaxPaths {
		ex.stop = true
		ex.Truncated = true
	}
	if !ex.Cfg.Deadline.IsZero() && time.Now().After(ex.Cfg.Deadline) {
		ex.stop = true
		ex.Truncated = true
	}
}

// NewInterp creates a worker-local interpreter.
func NewInterp(prog *ssa.Program, cfg *Config, s *smt.Solver) *Interp {
	in := &Interp{
		Prog: prog, C: smt.NewCtx(), Solver: s, Cfg: cfg,
		Sizes:   types.SizesFor("gc", "amd64"),
		globals: map[*ssa.Global]*Value{}, globObj: map[*ssa.Global]*Obj{},
		fninfo: map[*ssa.Function]*fnInfo{}, consts: map[*ssa.Const]Value{},
		initDone: map[*ssa.Package]bool{}, growCache: map[[4]int]int{},
		MaxSteps: cfg.MaxSteps, MaxDepth: cfg.MaxDepth,
	}
	in.natives = buildNatives()
	in.nativeCache = map[*ssa.Function]nativeFn{}
	return in
}

// resetVolatile forgets the globals of volatile packages so their init re-runs.
func (in *Interp) resetVolatile() {
	for g := range in.globals {
		if g.Pkg == nil || in.Cfg.isVolatile(g.Pkg.Pkg.Path()) {
			delete(in.globals, g)
			delete(in.globObj, g)
		}
	}
	for p := range in.initDone {
		if in.Cfg.isVolatile(p.Pkg.Path()) {
			delete(in.initDone, p)
		}
	}
	// constants cache holds terms of this ctx only; keep
}

// RunPath executes the harness once under the given decision prefix.
func (in *Interp) RunPath(fn *ssa.Function, it *WorkItem) (res *PathResult) {
	in.resetVolatile()
	in.Steps = 0
	in.Depth = 0
	in.Epoch = 1
	in.nextObj = 0
	in.cur = nil
	in.newPath(it)
	in.Solver.BeginPath()
	res = &PathResult{}
	w := in.W
	w.Stats.Paths++
	func() {
		defer func() {
			if r := recover(); r != nil {
				switch x := r.(type) {
				case *GoPanic:
					res.Outcome = "panic"
					res.Msg = x.Msg + " @ " + x.Site
					w.Stats.GoPanics++
				case *abortUnenc:
					res.Outcome = "unencodable"
					res.Msg = x.Msg
					w.Stats.Unenc++
				case *abortBound:
					res.Outcome = "bound"
					res.Msg = x.Msg
					w.Stats.Bound++
				case *abortInfeasible:
					res.Outcome = "infeasible"
					w.Stats.Infeasible++
				case *abortEndPath:
					res.Outcome = "ok"
				default:
					res.Outcome = "unencodable"
					buf := make([]byte, 4096)
					buf = buf[:runtime.Stack(buf, false)]
					res.Msg = fmt.Sprintf("ENGINE-INTERNAL: %v", r)
					if in.cur != nil {
						res.Msg += " in " + in.cur.fn.String()
						for f, k := in.cur.caller, 0; f != nil && k < 6; f, k = f.caller, k+1 {
							res.Msg += " <- " + f.fn.String()
						}
						if in.curInstr != nil {
							res.Msg += fmt.Sprintf(" at %s: %s", in.pos(in.curInstr.Pos()), in.curInstr.String())
						}
					}
					if in.Cfg.Debug {
						res.Msg += "\n" + string(buf)
					}
					w.Stats.Unenc++
				}
			}
		}()
		in.ensureInit(fn.Pkg)
		in.callFunction(fn, nil, nil)
		res.Outcome = "ok"
	}()
	p := in.P
	// a Go panic escaping the harness is itself a violation unless the harness
	// declared it expected
	if res.Outcome == "panic" && !p.covers["rt:panic-expected"] && p.modelOK {
		in.recordViolation("no-panic", res.Msg, p.model, nil)
	}
	if res.Outcome == "ok" || res.Outcome == "panic" {
		w.Stats.PathsOK++
		// certify the path condition and take the solver's model
		if in.Cfg.ConfirmPaths && len(p.lits) > 0 && len(p.violations) == 0 {
			in.flush()
			r, mm := in.Solver.Check(nil, in.C.VarsL, true)
			w.Stats.ConfirmQueries++
			if r == smt.Sat {
				m := make([]uint64, len(in.C.VarsL))
				copy(m, p.model)
				for id, v := range mm {
					m[id] = v
				}
				// keep our own model: it drove the concrete choices (choose values)
				// but both satisfy the path condition; use the solver's for replay
				p.model = m
			} else if r == smt.Unsat && p.unsure {
				// the branch kept because the solver had given no verdict is infeasible after all
				res.Outcome = "infeasible"
				w.Stats.Infeasible++
				w.Stats.PathsOK--
			} else if r == smt.Unsat {
				w.Stats.ConfirmBad++
				if os.Getenv("GOSYM_DUMPBAD") != "" {
					fmt.Fprintf(os.Stderr, "[bad path] decisions=%v\n", p.taken)
					for i, l := range p.lits {
						fmt.Fprintf(os.Stderr, "  lit %d: %s\n", i, l.String())
					}
				}
				res.Outcome = "unencodable"
				res.Msg = "ENGINE: solver refutes a path condition the engine considered feasible"
			} else {
				// no verdict within the time limit: assertions on this path were
				// each discharged by their own query; only the sample is lost
				res.Unconfirmed = true
			}
		}
		res.Vector = in.vector(p.model)
		res.Digest = in.digest(p.model)
		res.StubDiverged = in.stubDiverged(p.model)
	}
	for i := range p.violations {
		// vectors for violations come from their own models
		_ = i
	}
	if res.Outcome == "bound" || res.Outcome == "unencodable" {
		if p.modelOK {
			res.Vector = in.vector(p.model)
		}
	}
	res.Violations = p.violations
	for c := range p.covers {
		res.Covers = append(res.Covers, c)
	}
	sort.Strings(res.Covers)
	res.Notes = p.notes
	res.Foreign = p.foreign
	res.Decisions = len(p.taken)
	res.Steps = in.Steps
	w.Stats.Steps += in.Steps
	w.Stats.Inconclusive += int64(p.inconclusive)
	w.Stats.ConcreteAsserts += int64(p.concreteAsserts)
	in.Solver.EndPath()
	return res
}

// vector lists the nondeterministic inputs of the path in call order with
// their values under model m.
func (in *Interp) vector(m []uint64) [][2]interface{} {
	var out [][2]interface{}
	for _, nd := range in.P.nondets {
		if nd.T == nil {
			out = append(out, [2]interface{}{nd.Name, nd.Val})
			continue
		}
		v := smt.Eval(nd.T, m, nil)
		if nd.T.W <= 8 {
			out = append(out, [2]interface{}{nd.Name, int64(v)})
			continue
		}
		out = append(out, [2]interface{}{nd.Name, smt.SignExt(v, nd.T.W)})
	}
	return out
}

// VectorFor computes the input vector of a violation from its named model.
func (in *Interp) vectorNamed(nds []nondetRec, model map[string]uint64) [][2]interface{} {
	var out [][2]interface{}
	for _, nd := range nds {
		if nd.T == nil {
			out = append(out, [2]interface{}{nd.Name, nd.Val})
			continue
		}
		v := model[nd.Name]
		out = append(out, [2]interface{}{nd.Name, smt.SignExt(v, nd.T.W)})
	}
	return out
}
