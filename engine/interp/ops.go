package interp

import (
	"fmt"
	"go/token"
	"go/types"
	"math"
	"unicode/utf8"

	"gosym/smt"

	"golang.org/x/tools/go/ssa"
)

func (in *Interp) unop(ins *ssa.UnOp, x Value) Value {
	switch ins.Op {
	case token.MUL:
		v := in.load(x, ins.Pos())
		if ins.CommaOk {
			panic(in.unenc("channel receive"))
		}
		return v
	case token.NOT:
		return in.C.Not(x.(*smt.Term))
	case token.SUB:
		switch t := x.(type) {
		case *smt.Term:
			return in.C.Neg(t)
		case float64:
			return -t
		}
	case token.XOR:
		return in.C.BNot(x.(*smt.Term))
	}
	panic(in.unenc("unop %s on %T", ins.Op, x))
}

func (in *Interp) binop(op token.Token, xt, yt types.Type, x, y Value) Value {
	switch a := x.(type) {
	case *smt.Term:
		b, ok := y.(*smt.Term)
		if !ok {
			break
		}
		return in.intBinop(op, xt, yt, a, b)
	case Str:
		return in.strBinop(op, a, y.(Str))
	case float64:
		b := y.(float64)
		switch op {
		case token.ADD:
			return a + b
		case token.SUB:
			return a - b
		case token.MUL:
			return a * b
		case token.QUO:
			return a / b
		case token.EQL:
			return in.C.Bool(a == b)
		case token.NEQ:
			return in.C.Bool(a != b)
		case token.LSS:
			return in.C.Bool(a < b)
		case token.LEQ:
			return in.C.Bool(a <= b)
		case token.GTR:
			return in.C.Bool(a > b)
		case token.GEQ:
			return in.C.Bool(a >= b)
		}
	}
	switch op {
	case token.EQL:
		return in.eqVal(x, y)
	case token.NEQ:
		return in.C.Not(in.eqVal(x, y))
	}
	panic(in.unenc("binop %s on %T, %T", op, x, y))
}

func (in *Interp) intBinop(op token.Token, xt, yt types.Type, a, b *smt.Term) Value {
	c := in.C
	_, signed, _ := intWidth(xt)
	if a.W == 0 { // bools
		switch op {
		case token.EQL:
			return c.Eq(a, b)
		case token.NEQ:
			return c.Not(c.Eq(a, b))
		case token.AND, token.LAND:
			return c.And(a, b)
		case token.OR, token.LOR:
			return c.Or(a, b)
		}
		panic(in.unenc("bool binop %s", op))
	}
	switch op {
	case token.ADD:
		return c.Add(a, b)
	case token.SUB:
		return c.Sub(a, b)
	case token.MUL:
		return c.Mul(a, b)
	case token.QUO, token.REM:
		if !b.IsConst() || b.Val == 0 {
			if in.decide(c.Eq(b, c.Const(b.W, 0))) {
				panic(in.goPanic("integer divide by zero"))
			}
		}
		if op == token.QUO {
			if signed {
				return c.SDiv(a, b)
			}
			return c.UDiv(a, b)
		}
		if signed {
			return c.SRem(a, b)
		}
		return c.URem(a, b)
	case token.AND:
		return c.BAnd(a, b)
	case token.OR:
		return c.BOr(a, b)
	case token.XOR:
		return c.BXor(a, b)
	case token.AND_NOT:
		return c.BAnd(a, c.BNot(b))
	case token.SHL, token.SHR:
		_, ysigned, _ := intWidth(yt)
		if ysigned {
			neg := c.SLt(b, c.Const(b.W, 0))
			if !neg.IsFalse() && in.decide(neg) {
				panic(in.goPanic("negative shift amount"))
			}
		}
		// bring the count to a's width; counts >= width saturate
		cnt := b
		var big *smt.Term
		if b.W > a.W {
			big = c.Not(c.ULt(b, c.Const(b.W, uint64(a.W))))
			cnt = c.Extract(b, a.W-1, 0)
		} else {
			cnt = c.ZExt(b, a.W)
			big = c.Not(c.ULt(cnt, c.Const(a.W, uint64(a.W))))
		}
		var r, sat *smt.Term
		switch {
		case op == token.SHL:
			r, sat = c.Shl(a, cnt), c.Const(a.W, 0)
		case signed:
			r = c.AShr(a, cnt)
			sat = c.AShr(a, c.Const(a.W, uint64(a.W-1)))
		default:
			r, sat = c.LShr(a, cnt), c.Const(a.W, 0)
		}
		return c.Ite(big, sat, r)
	case token.EQL:
		return c.Eq(a, b)
	case token.NEQ:
		return c.Not(c.Eq(a, b))
	case token.LSS:
		if signed {
			return c.SLt(a, b)
		}
		return c.ULt(a, b)
	case token.LEQ:
		if signed {
			return c.SLe(a, b)
		}
		return c.ULe(a, b)
	case token.GTR:
		if signed {
			return c.SLt(b, a)
		}
		return c.ULt(b, a)
	case token.GEQ:
		if signed {
			return c.SLe(b, a)
		}
		return c.ULe(b, a)
	}
	panic(in.unenc("int binop %s", op))
}

// ---- strings ----

func (in *Interp) strAt(s Str, i int) *smt.Term {
	if s.Sym != nil {
		return s.Sym[i]
	}
	return in.C.Const(8, uint64(s.S[i]))
}

func (in *Interp) strBytes(s Str) []*smt.Term {
	if s.Sym != nil {
		return s.Sym
	}
	b := make([]*smt.Term, len(s.S))
	for i := 0; i < len(s.S); i++ {
		b[i] = in.C.Const(8, uint64(s.S[i]))
	}
	return b
}

// normStr builds a Str from byte terms, collapsing to a concrete string when possible.
func (in *Interp) normStr(b []*smt.Term) Str {
	conc := make([]byte, len(b))
	for i, t := range b {
		if !t.IsConst() {
			cp := make([]*smt.Term, len(b))
			copy(cp, b)
			return Str{Sym: cp}
		}
		conc[i] = byte(t.Val)
	}
	return Str{S: string(conc)}
}

func (in *Interp) strEq(a, b Str) *smt.Term {
	if a.Len() != b.Len() {
		return in.C.False
	}
	if a.Sym == nil && b.Sym == nil {
		return in.C.Bool(a.S == b.S)
	}
	r := in.C.True
	for i := 0; i < a.Len(); i++ {
		r = in.C.And(r, in.C.Eq(in.strAt(a, i), in.strAt(b, i)))
		if r.IsFalse() {
			return r
		}
	}
	return r
}

func (in *Interp) strLess(a, b Str) *smt.Term {
	if a.Sym == nil && b.Sym == nil {
		return in.C.Bool(a.S < b.S)
	}
	// lexicographic: build from the end
	n := a.Len()
	if b.Len() < n {
		n = b.Len()
	}
	r := in.C.Bool(a.Len() < b.Len())
	for i := n - 1; i >= 0; i-- {
		x, y := in.strAt(a, i), in.strAt(b, i)
		r = in.C.Ite(in.C.ULt(x, y), in.C.True, in.C.Ite(in.C.Eq(x, y), r, in.C.False))
	}
	return r
}

func (in *Interp) strBinop(op token.Token, a, b Str) Value {
	switch op {
	case token.ADD:
		if a.Sym == nil && b.Sym == nil {
			return Str{S: a.S + b.S}
		}
		return in.normStr(append(append([]*smt.Term{}, in.strBytes(a)...), in.strBytes(b)...))
	case token.EQL:
		return in.strEq(a, b)
	case token.NEQ:
		return in.C.Not(in.strEq(a, b))
	case token.LSS:
		return in.strLess(a, b)
	case token.GTR:
		return in.strLess(b, a)
	case token.LEQ:
		return in.C.Not(in.strLess(b, a))
	case token.GEQ:
		return in.C.Not(in.strLess(a, b))
	}
	panic(in.unenc("string binop %s", op))
}

// ---- equality ----

func (in *Interp) eqVal(x, y Value) *smt.Term {
	c := in.C
	switch a := x.(type) {
	case nil:
		return c.Bool(y == nil)
	case *smt.Term:
		return c.Eq(a, y.(*smt.Term))
	case Str:
		return in.strEq(a, y.(Str))
	case float64:
		return c.Bool(a == y.(float64))
	case Ptr:
		b := y.(Ptr)
		return c.Bool(a.P == b.P)
	case Iface:
		b := y.(Iface)
		if a.T == nil || b.T == nil {
			return c.Bool(a.T == nil && b.T == nil)
		}
		if !types.Identical(a.T, b.T) {
			return c.False
		}
		if !types.Comparable(a.T) {
			panic(in.goPanic("comparing uncomparable type %s", a.T))
		}
		return in.eqVal(a.V, b.V)
	case Struct:
		b := y.(Struct)
		r := c.True
		for i := range a {
			r = c.And(r, in.eqVal(a[i], b[i]))
		}
		return r
	case Array:
		b := y.(Array)
		r := c.True
		for i := range a {
			r = c.And(r, in.eqVal(a[i], b[i]))
		}
		return r
	case *MapV:
		b := y.(*MapV)
		return c.Bool(a == b)
	case Slice: // only == nil
		b := y.(Slice)
		if a.A == nil || b.A == nil {
			return c.Bool(a.A == nil && b.A == nil)
		}
		panic(in.goPanic("comparing slices"))
	case *Closure:
		b, _ := y.(*Closure)
		if a == nil || b == nil {
			if yf, ok := y.(*ssa.Function); ok && yf != nil {
				return c.False
			}
			return c.Bool(a == nil && b == nil)
		}
		panic(in.goPanic("comparing funcs"))
	case *ssa.Function:
		if b, ok := y.(*Closure); ok && b == nil {
			return c.False
		}
		panic(in.goPanic("comparing funcs"))
	case OpaqueNum:
		b, ok := y.(OpaqueNum)
		if !ok {
			return c.False
		}
		if a.Fn != b.Fn {
			return c.False
		}
		e := in.strEq(a.Arg, b.Arg)
		if e.IsTrue() {
			return e
		}
		panic(in.unenc("comparison of uninterpreted numbers with different arguments"))
	case Opaque:
		b, ok := y.(Opaque)
		return c.Bool(ok && a.Data == b.Data)
	}
	panic(in.unenc("equality on %T", x))
}

// ---- conversions ----

func (in *Interp) convert(from, to types.Type, x Value) Value {
	c := in.C
	fu, tu := from.Underlying(), to.Underlying()
	// pointer/unsafe conversions
	if _, ok := tu.(*types.Pointer); ok {
		return x
	}
	if tb, ok := tu.(*types.Basic); ok && tb.Kind() == types.UnsafePointer {
		return x
	}
	switch tt := tu.(type) {
	case *types.Slice:
		// string -> []byte / []rune
		s, ok := x.(Str)
		if !ok {
			return x
		}
		eb, _ := tt.Elem().Underlying().(*types.Basic)
		if eb != nil && eb.Kind() == types.Uint8 {
			bs := in.strBytes(s)
			a := &ArrObj{O: in.newObj("[]byte(string)"), E: make([]Value, len(bs))}
			for i, t := range bs {
				a.E[i] = t
			}
			return Slice{A: a, Len: len(bs), Cap: len(bs)}
		}
		cs, okc := s.Concrete()
		if !okc {
			panic(in.unenc("[]rune of symbolic string"))
		}
		rs := []rune(cs)
		a := &ArrObj{O: in.newObj("[]rune(string)"), E: make([]Value, len(rs))}
		for i, r := range rs {
			a.E[i] = c.Const(32, uint64(uint32(r)))
		}
		return Slice{A: a, Len: len(rs), Cap: len(rs)}
	case *types.Basic:
		if tt.Info()&types.IsString != 0 {
			switch v := x.(type) {
			case Str:
				return v
			case Slice:
				// []byte or []rune -> string
				eb, _ := fu.(*types.Slice).Elem().Underlying().(*types.Basic)
				if eb != nil && eb.Kind() == types.Uint8 {
					bs := make([]*smt.Term, v.Len)
					for i := 0; i < v.Len; i++ {
						bs[i] = v.A.E[v.Off+i].(*smt.Term)
					}
					return in.normStr(bs)
				}
				var out []*smt.Term
				for i := 0; i < v.Len; i++ {
					out = append(out, in.strBytes(in.runeToStr(v.A.E[v.Off+i].(*smt.Term), true))...)
				}
				return in.normStr(out)
			case *smt.Term:
				_, signed, _ := intWidth(fu)
				return in.runeToStr(v, signed)
			}
		}
		if tt.Info()&types.IsInteger != 0 {
			tw, _, _ := intWidth(tt)
			switch v := x.(type) {
			case *smt.Term:
				_, fsigned, _ := intWidth(fu)
				if v.W == tw {
					return v
				}
				if v.W > tw {
					return c.Extract(v, tw-1, 0)
				}
				if fsigned {
					return c.SExt(v, tw)
				}
				return c.ZExt(v, tw)
			case float64:
				_, tsigned, _ := intWidth(tt)
				if tsigned {
					return c.Const(tw, uint64(int64(v)))
				}
				return c.Const(tw, uint64(v))
			}
		}
		if tt.Info()&types.IsFloat != 0 {
			switch v := x.(type) {
			case float64:
				if tt.Kind() == types.Float32 {
					return float64(float32(v))
				}
				return v
			case *smt.Term:
				if !v.IsConst() {
					panic(in.unenc("symbolic integer converted to float"))
				}
				_, fsigned, _ := intWidth(fu)
				if fsigned {
					return float64(v.Int64())
				}
				return float64(v.Val)
			}
		}
	}
	if types.Identical(fu, tu) {
		return x
	}
	panic(in.unenc("conversion %s -> %s of %T", from, to, x))
}

// runeToStr implements string(rune) for a possibly symbolic code point.
func (in *Interp) runeToStr(r *smt.Term, signed bool) Str {
	c := in.C
	if r.IsConst() {
		var v int64
		if signed {
			v = r.Int64()
		} else {
			v = int64(r.Val)
		}
		if v < 0 || v > math.MaxInt32 {
			return Str{S: "�"}
		}
		return Str{S: string(rune(v))}
	}
	// widen to 32 bits
	var x *smt.Term
	switch {
	case r.W > 32:
		// out of range if upper bits are not zero
		hiZero := c.Eq(c.Extract(r, r.W-1, 32), c.Const(r.W-32, 0))
		if !in.decide(hiZero) {
			return Str{S: "�"}
		}
		x = c.Extract(r, 31, 0)
	case r.W < 32:
		if signed {
			x = c.SExt(r, 32)
		} else {
			x = c.ZExt(r, 32)
		}
	default:
		x = r
	}
	k := func(v uint64) *smt.Term { return c.Const(32, v) }
	b8 := func(t *smt.Term) *smt.Term { return c.Extract(t, 7, 0) }
	if in.decide(c.ULt(x, k(0x80))) {
		return Str{Sym: []*smt.Term{b8(x)}}
	}
	if in.decide(c.ULt(x, k(0x800))) {
		return Str{Sym: []*smt.Term{
			b8(c.BOr(k(0xC0), c.LShr(x, k(6)))),
			b8(c.BOr(k(0x80), c.BAnd(x, k(0x3F)))),
		}}
	}
	bad := c.Or(c.And(c.ULe(k(0xD800), x), c.ULe(x, k(0xDFFF))), c.ULt(k(utf8.MaxRune), x))
	if in.decide(bad) {
		return Str{S: "�"}
	}
	if in.decide(c.ULt(x, k(0x10000))) {
		return Str{Sym: []*smt.Term{
			b8(c.BOr(k(0xE0), c.LShr(x, k(12)))),
			b8(c.BOr(k(0x80), c.BAnd(c.LShr(x, k(6)), k(0x3F)))),
			b8(c.BOr(k(0x80), c.BAnd(x, k(0x3F)))),
		}}
	}
	return Str{Sym: []*smt.Term{
		b8(c.BOr(k(0xF0), c.LShr(x, k(18)))),
		b8(c.BOr(k(0x80), c.BAnd(c.LShr(x, k(12)), k(0x3F)))),
		b8(c.BOr(k(0x80), c.BAnd(c.LShr(x, k(6)), k(0x3F)))),
		b8(c.BOr(k(0x80), c.BAnd(x, k(0x3F)))),
	}}
}

// ---- maps ----

func (in *Interp) keyHash(v Value) (string, bool) {
	switch k := v.(type) {
	case *smt.Term:
		if k.IsConst() {
			return fmt.Sprintf("i%d/%d", k.W, k.Val), true
		}
		return "", false
	case Str:
		if s, ok := k.Concrete(); ok {
			return "s" + s, true
		}
		return "", false
	case Ptr:
		return fmt.Sprintf("p%p", k.P), true
	case Iface:
		if k.T == nil {
			return "nil", true
		}
		h, ok := in.keyHash(k.V)
		return k.T.String() + "|" + h, ok
	case Struct:
		s := "{"
		for _, e := range k {
			h, ok := in.keyHash(e)
			if !ok {
				return "", false
			}
			s += h + ","
		}
		return s + "}", true
	case float64:
		return fmt.Sprintf("f%v", k), true
	}
	return "", false
}

// mapFind returns the entry index of key or -1; may fork on symbolic keys.
func (in *Interp) mapFind(m *MapV, key Value) int {
	if m == nil {
		return -1
	}
	h, ok := in.keyHash(key)
	if ok && m.nsym == 0 {
		if i, found := m.idx[h]; found {
			return i
		}
		return -1
	}
	for i, k := range m.Keys {
		e := in.eqVal(k, key)
		if e.IsFalse() {
			continue
		}
		if in.decide(e) {
			return i
		}
	}
	return -1
}

func (in *Interp) mapUpdate(m *MapV, key, val Value) {
	i := in.mapFind(m, key)
	if i >= 0 {
		m.Vals[i] = val
		return
	}
	m.Keys = append(m.Keys, copyVal(key))
	m.Vals = append(m.Vals, val)
	if h, ok := in.keyHash(key); ok {
		m.idx[h] = len(m.Keys) - 1
	} else {
		m.nsym++
	}
}

func (in *Interp) mapDelete(m *MapV, key Value) {
	i := in.mapFind(m, key)
	if i < 0 {
		return
	}
	m.Keys = append(m.Keys[:i:i], m.Keys[i+1:]...)
	m.Vals = append(m.Vals[:i:i], m.Vals[i+1:]...)
	m.idx = map[string]int{}
	m.nsym = 0
	for j, k := range m.Keys {
		if h, ok := in.keyHash(k); ok {
			m.idx[h] = j
		} else {
			m.nsym++
		}
	}
}

func (in *Interp) lookup(ins *ssa.Lookup, x, idx Value) Value {
	switch m := x.(type) {
	case Str:
		i := in.concretizeIndex(idx.(*smt.Term), m.Len(), ins.Pos())
		return in.strAt(m, i)
	case *MapV:
		i := in.mapFind(m, idx)
		var v Value
		if i >= 0 {
			v = copyVal(m.Vals[i])
		} else {
			v = in.zero(ins.X.Type().Underlying().(*types.Map).Elem())
		}
		if ins.CommaOk {
			return Tuple{v, in.C.Bool(i >= 0)}
		}
		return v
	}
	panic(in.unenc("Lookup on %T", x))
}

func (in *Interp) rangeStart(x Value) Value {
	switch m := x.(type) {
	case *MapV:
		it := &mapIter{m: m}
		if m != nil {
			it.keys = append([]Value{}, m.Keys...)
			it.vals = append([]Value{}, m.Vals...)
			// Go's runtime starts a small map's iteration at a random slot and
			// walks cyclically: the possible orders are the rotations.
			if in.Cfg.PermuteMaps && in.P != nil && in.P.permuteBudget > 0 && len(it.keys) > 1 && len(it.keys) <= 8 {
				in.P.permuteBudget--
				n := len(it.keys)
				r := in.choose("maporder", n)
				if r > 0 {
					it.keys = append(append([]Value{}, it.keys[r:]...), it.keys[:r]...)
					it.vals = append(append([]Value{}, it.vals[r:]...), it.vals[:r]...)
				}
			}
		}
		return it
	case Str:
		return &strIter{s: m}
	}
	panic(in.unenc("Range on %T", x))
}

func (in *Interp) rangeNext(ins *ssa.Next, itv Value) Value {
	c := in.C
	switch it := itv.(type) {
	case *mapIter:
		if it.i >= len(it.keys) {
			return Tuple{c.False, nil, nil}
		}
		k, v := it.keys[it.i], it.vals[it.i]
		it.i++
		// reflect updates made during iteration to existing keys
		if j := in.mapFindNoFork(it.m, k); j >= 0 {
			v = it.m.Vals[j]
		}
		return Tuple{c.True, copyVal(k), copyVal(v)}
	case *strIter:
		if it.i >= it.s.Len() {
			return Tuple{c.False, c.Const(64, 0), c.Const(32, 0)}
		}
		start := it.i
		if it.s.Sym == nil {
			r, w := utf8.DecodeRuneInString(it.s.S[it.i:])
			it.i += w
			return Tuple{c.True, c.Const(64, uint64(start)), c.Const(32, uint64(uint32(r)))}
		}
		// symbolic: decode through the real utf8.DecodeRuneInString
		fn := in.lookupFunc("unicode/utf8", "DecodeRuneInString")
		rest := in.normStr(it.s.Sym[it.i:])
		res := in.callFunction(fn, []Value{rest}, nil).(Tuple)
		w := int(in.concretize(res[1].(*smt.Term), "rune width"))
		it.i += w
		return Tuple{c.True, c.Const(64, uint64(start)), res[0]}
	}
	panic(in.unenc("Next on %T", itv))
}

func (in *Interp) mapFindNoFork(m *MapV, key Value) int {
	if m == nil {
		return -1
	}
	for i, k := range m.Keys {
		if in.eqVal(k, key).IsTrue() {
			return i
		}
	}
	return -1
}

func (in *Interp) lookupFunc(pkgPath, name string) *ssa.Function {
	for _, p := range in.Prog.AllPackages() {
		if p.Pkg.Path() == pkgPath {
			if f := p.Func(name); f != nil {
				return f
			}
		}
	}
	panic(in.unenc("function %s.%s not in program", pkgPath, name))
}
