// Command gosym: symbolic execution of go/ssa harnesses against /repo's
// current working tree, with SMT-decided branching and native replay.
package main

import (
	"bytes"
	"crypto/sha1"
	"encoding/json"
	"flag"
	"fmt"
	"os"
	"os/exec"
	"path/filepath"
	"sort"
	"strings"
	"time"

	"gosym/interp"

	"golang.org/x/tools/go/packages"
	"golang.org/x/tools/go/ssa"
	"golang.org/x/tools/go/ssa/ssautil"
)

// verifDir is where checks.json, known_findings.json, harness/, evidence/ live:
// $GOSYM_VERIF (set by ./check to its own directory) or /verif.
var verifDir = func() string {
	if d := os.Getenv("GOSYM_VERIF"); d != "" {
		return d
	}
	return "/verif"
}()
var harnessDir = filepath.Join(verifDir, "harness")

// repoDir is the tree under verification: $GOSYM_REPO (used for background
// runs on a snapshot; the harness module's replace directive must point to the
// same place, ./check takes care of that) or /repo.
var repoDir = func() string {
	if d := os.Getenv("GOSYM_REPO"); d != "" {
		return d
	}
	return "/repo"
}()

// HarnessSpec is one entry of checks.json.
type HarnessSpec struct {
	Fn       string         `json:"fn"` // pkgpath.Func
	Quick    map[string]int `json:"quick"`
	Thorough map[string]int `json:"thorough"`
	Opts     map[string]int `json:"opts"`     // engine options (maxsteps, permute, stores, ...)
	Require  []string       `json:"require"`  // cover points that must be reached
	Bounds   string         `json:"bounds"`   // human-readable statement of the bound
	TOpts    map[string]int `json:"topts"`    // engine options overriding Opts in the thorough tier
	Solver   string         `json:"solver"`   // z3 (default), z3-new, cvc5
}

type CheckSpec struct {
	Harnesses []HarnessSpec `json:"harnesses"`
	Assumptions []string    `json:"assumptions"`
}

type KnownFinding struct {
	Property string `json:"property"`
	Harness  string `json:"harness"`
	Assert   string `json:"assert"`
	Shape    string `json:"shape"`
	Input    string `json:"canonical_input"`
	What     string `json:"what"`
}

type KnownFile struct {
	Known []KnownFinding           `json:"known"`
	Fixed []map[string]interface{} `json:"fixed"`
}

func fatal(code int, format string, a ...interface{}) {
	fmt.Fprintf(os.Stderr, "gosym: "+format+"\n", a...)
	os.Exit(code)
}

func goEnv() []string {
	env := os.Environ()
	env = append(env, "GOFLAGS=-mod=mod", "GOPROXY=off", "GOSUMDB=off", "GOTOOLCHAIN=local")
	return env
}

func loadProgram() (*ssa.Program, []*ssa.Package, time.Duration) {
	start := time.Now()
	// keep go.sum in step with /repo
	if b, err := os.ReadFile(filepath.Join(repoDir, "go.sum")); err == nil {
		os.WriteFile(filepath.Join(harnessDir, "go.sum"), b, 0644)
	}
	cfg := &packages.Config{
		Mode: packages.NeedName | packages.NeedFiles | packages.NeedCompiledGoFiles | packages.NeedImports |
			packages.NeedDeps | packages.NeedTypes | packages.NeedSyntax | packages.NeedTypesInfo | packages.NeedTypesSizes | packages.NeedModule,
		Dir: harnessDir,
		Env: goEnv(),
	}
	pkgs, err := packages.Load(cfg, "./...")
	if err != nil {
		fatal(2, "load: %v", err)
	}
	bad := false
	packages.Visit(pkgs, nil, func(p *packages.Package) {
		for _, e := range p.Errors {
			fmt.Fprintf(os.Stderr, "gosym: load error in %s: %v\n", p.PkgPath, e)
			bad = true
		}
	})
	if bad {
		fatal(2, "/repo (or the harness module) does not type-check; cannot judge any property")
	}
	prog, spkgs := ssautil.AllPackages(pkgs, ssa.InstantiateGenerics)
	prog.Build()
	return prog, spkgs, time.Since(start)
}

func findFunc(prog *ssa.Program, spec string) *ssa.Function {
	i := strings.LastIndex(spec, ".")
	pkgPath, name := spec[:i], spec[i+1:]
	for _, p := range prog.AllPackages() {
		if p.Pkg.Path() == pkgPath {
			if f := p.Func(name); f != nil {
				return f
			}
		}
	}
	return nil
}

var stablePkgs = map[string]bool{
	"strconv": true, "unicode/utf8": true, "sort": true, "bytes": true, "errors": false,
	"strings": true, "math": true, "math/bits": true, "internal/bytealg": false, "unicode/utf16": true,
	"internal/stringslite": true, "slices": true, "cmp": true, "internal/itoa": true,
	// sentinel errors (io.EOF, bufio.ErrTooLong, ...) must exist: a nil io.EOF makes readers loop
	"io": true, "bufio": true, "unicode": true,
}

func baseConfig(tier string, seed int64, opts map[string]int, params map[string]int) *interp.Config {
	get := func(k string, d int) int {
		if v, ok := opts[k]; ok {
			return v
		}
		return d
	}
	cfg := &interp.Config{
		Params:       params,
		MaxSteps:     int64(get("maxsteps", 20_000_000)),
		MaxDepth:     get("maxdepth", 4000),
		MaxDecisions: get("maxdecisions", 20000),
		MaxFanout:    get("maxfanout", 300),
		MaxPaths:     int64(get("maxpaths", 0)),
		ByteDomains:  get("bytedomains", 1) == 1,
		Intervals:    get("intervals", 1) == 1 && os.Getenv("GOSYM_NOINTERVALS") == "",
		TrackStores:  get("stores", 0) == 1,
		PermuteMaps:  get("permute", 0) == 1,
		PermuteRanges: get("permute_ranges", 2),
		ConfirmPaths: get("confirm", 1) == 1,
		SolverKind:   "z3",
		TimeoutMs:    get("timeout_ms", 20000),
		Workers:      get("workers", 16),
		VolatilePkgs: []string{"github.com/opsidian/parsley", "vh"},
		StablePkgs:   stablePkgs,
		SampleEvery:  get("sample_every", 1),
		Seed:         seed,
	}
	if s := os.Getenv("GOSYM_SOLVER"); s != "" {
		cfg.SolverKind = s
	}
	if os.Getenv("GOSYM_DEBUG") != "" {
		cfg.Debug = true
	}
	if os.Getenv("GOSYM_NOBYTEDOM") != "" {
		cfg.ByteDomains = false
	}
	if w := os.Getenv("GOSYM_WORKERS"); w != "" {
		fmt.Sscan(w, &cfg.Workers)
	}
	return cfg
}

// ---- native replay ----

type replayOutcome struct {
	Result string   `json:"result"`
	Assert string   `json:"assert"`
	Detail string   `json:"detail"`
	Digest []string `json:"digest"`
	Covers []string `json:"covers"`
}

type replayer struct {
	bin     string
	raceBin string
	useRace bool
	tmpdir  string
	buildS  float64
}

// withRace returns a replayer view that runs the race-detector build
// (built on first use) with halt_on_error: a reported data race kills the run.
func (r *replayer) withRace() *replayer {
	if r.raceBin == "" {
		r.raceBin = filepath.Join(r.tmpdir, "replay-race")
		start := time.Now()
		cmd := exec.Command("go", "build", "-race", "-o", r.raceBin, "./cmd/replay")
		cmd.Dir = harnessDir
		cmd.Env = goEnv()
		if out, err := cmd.CombinedOutput(); err != nil {
			fatal(2, "race build of the harness module failed:\n%s", out)
		}
		r.buildS += time.Since(start).Seconds()
	}
	cp := *r
	cp.bin = r.raceBin
	cp.useRace = true
	return &cp
}

func newReplayer() *replayer {
	dir, err := os.MkdirTemp("", "gosym-replay-")
	if err != nil {
		fatal(2, "mktemp: %v", err)
	}
	r := &replayer{tmpdir: dir, bin: filepath.Join(dir, "replay")}
	start := time.Now()
	cmd := exec.Command("go", "build", "-o", r.bin, "./cmd/replay")
	cmd.Dir = harnessDir
	cmd.Env = goEnv()
	out, err := cmd.CombinedOutput()
	if err != nil {
		os.RemoveAll(dir)
		fatal(2, "native build of the harness module against /repo failed:\n%s", out)
	}
	r.buildS = time.Since(start).Seconds()
	return r
}

func (r *replayer) close() { os.RemoveAll(r.tmpdir) }

// run replays vectors; a crash of the process (fatal error, timeout) is
// attributed by re-running the vectors one at a time.
func (r *replayer) run(harness string, params map[string]int, vectors [][][2]interface{}, timeout time.Duration) []replayOutcome {
	outs, ok := r.runBatch(harness, params, vectors, timeout)
	if ok {
		return outs
	}
	outs = nil
	for _, v := range vectors {
		o, ok := r.runBatch(harness, params, [][][2]interface{}{v}, timeout)
		if ok && len(o) == 1 {
			outs = append(outs, o[0])
		} else {
			detail := "process died"
			if len(o) == 1 {
				detail = o[0].Detail
			}
			outs = append(outs, replayOutcome{Result: "crash", Assert: "no-panic", Detail: detail})
		}
	}
	return outs
}

func (r *replayer) runBatch(harness string, params map[string]int, vectors [][][2]interface{}, timeout time.Duration) ([]replayOutcome, bool) {
	req := map[string]interface{}{"harness": harness, "params": params, "vectors": strVectors(vectors)}
	in, _ := json.Marshal(req)
	cmd := exec.Command(r.bin)
	cmd.Stdin = bytes.NewReader(in)
	var stdout, stderr bytes.Buffer
	cmd.Stdout = &stdout
	cmd.Stderr = &stderr
	cmd.Env = append(os.Environ(), "GOTRACEBACK=single")
	if r.useRace {
		cmd.Env = append(cmd.Env, "GORACE=halt_on_error=1")
	}
	if err := cmd.Start(); err != nil {
		return nil, false
	}
	done := make(chan error, 1)
	go func() { done <- cmd.Wait() }()
	var werr error
	timedOut := false
	select {
	case werr = <-done:
	case <-time.After(timeout):
		cmd.Process.Kill()
		<-done
		timedOut = true
	}
	var outs []replayOutcome
	dec := json.NewDecoder(&stdout)
	for dec.More() {
		var o replayOutcome
		if err := dec.Decode(&o); err != nil {
			break
		}
		outs = append(outs, o)
	}
	if timedOut || werr != nil || len(outs) != len(vectors) {
		msg := firstLines(stderr.String(), 3)
		if timedOut {
			msg = fmt.Sprintf("native run did not finish within %s", timeout)
		}
		if len(vectors) == 1 {
			return []replayOutcome{{Result: "crash", Assert: "no-panic", Detail: msg}}, false
		}
		return nil, false
	}
	return outs, true
}

// strVectors renders values as decimal strings (JSON numbers lose 64-bit precision).
func strVectors(vs [][][2]interface{}) [][][2]interface{} {
	out := make([][][2]interface{}, len(vs))
	for i, v := range vs {
		out[i] = strVector(v)
	}
	return out
}

func strVector(v [][2]interface{}) [][2]interface{} {
	o := make([][2]interface{}, len(v))
	for j, e := range v {
		o[j] = [2]interface{}{e[0], fmt.Sprint(e[1])}
	}
	return o
}

func firstLines(s string, n int) string {
	ls := strings.Split(strings.TrimSpace(s), "\n")
	if len(ls) > n {
		ls = ls[:n]
	}
	return strings.Join(ls, " | ")
}

// ---- reporting ----

type harnessReport struct {
	Fn           string            `json:"harness"`
	Bounds       string            `json:"bounds"`
	Params       map[string]int    `json:"params"`
	Paths        int64             `json:"paths"`
	PathsDone    int64             `json:"paths_completed"`
	Infeasible   int64             `json:"paths_dropped_by_assume"`
	Decisions    int64             `json:"decisions"`
	DomainDecided int64            `json:"decided_by_byte_domain_propagation"`
	Queries      map[string]int    `json:"solver_queries"`
	SolverWallS  float64           `json:"solver_wall_s"`
	LongestMs    float64           `json:"longest_query_ms"`
	Asserts      int64             `json:"assertions_checked"`
	AssertsConcrete int64          `json:"assertions_concrete_on_path"`
	AssertsProved int64            `json:"assertions_proved_unsat"`
	AssertsUnknown int64           `json:"assertions_inconclusive"`
	Steps        int64             `json:"ssa_instructions_executed"`
	Cover        map[string]int64  `json:"cover"`
	Unencodable  map[string]int64  `json:"unencodable,omitempty"`
	UnknownAsserts map[string]int64 `json:"assertions_without_verdict,omitempty"`
	BoundExceeded map[string]int64 `json:"bound_exceeded,omitempty"`
	Truncated    bool              `json:"truncated,omitempty"`
	Validated    int               `json:"native_replays_matching"`
	Mismatches   []string          `json:"validation_mismatches,omitempty"`
	StubSkipped  int64             `json:"paths_only_reachable_through_stub_over_approximation,omitempty"`
	Unconfirmed  int64             `json:"paths_whose_condition_the_solver_gave_no_verdict_on_not_sampled,omitempty"`
	StubViolations int64           `json:"assertion_failures_discarded_as_stub_artefacts,omitempty"`
	Violations   int               `json:"violations_replayed"`
	Known        int               `json:"known_findings_matched"`
	Unreproduced []string          `json:"engine_only_violations_not_reproduced,omitempty"`
	MissingCover []string          `json:"required_cover_unreached,omitempty"`
	WallS        float64           `json:"wall_s"`
	Functions    int               `json:"functions_encoded"`
	samples      []interface{}
	funcs        map[string]bool
}

func vecString(v [][2]interface{}) string {
	var parts []string
	for _, e := range v {
		parts = append(parts, fmt.Sprintf("%v=%v", e[0], e[1]))
	}
	return strings.Join(parts, " ")
}

// inputString renders the byte-valued inputs of a vector as a Go string.
func inputString(v [][2]interface{}) string {
	var b []byte
	for _, e := range v {
		n, _ := e[0].(string)
		if strings.HasPrefix(n, "in") {
			switch x := e[1].(type) {
			case int64:
				b = append(b, byte(x))
			}
		}
	}
	return string(b)
}

func shapeString(v [][2]interface{}) string {
	var parts []string
	for _, e := range v {
		n, _ := e[0].(string)
		base := n
		if i := strings.LastIndex(n, "#"); i >= 0 {
			base = n[:i]
		}
		if strings.HasPrefix(base, "g.") || base == "grammar" || base == "shape" || base == "op" || base == "kind" || strings.HasPrefix(base, "mode") || base == "n" || base == "terminal" {
			parts = append(parts, fmt.Sprintf("%s=%v", base, e[1]))
		}
	}
	return strings.Join(parts, ",")
}

func main() {
	if len(os.Args) < 2 {
		fatal(2, "usage: gosym check|run|replay ...")
	}
	switch os.Args[1] {
	case "check":
		cmdCheck(os.Args[2:])
	case "replay":
		cmdReplay(os.Args[2:])
	default:
		fatal(2, "unknown command %s", os.Args[1])
	}
}

func readChecks() map[string]CheckSpec {
	b, err := os.ReadFile(filepath.Join(verifDir, "checks.json"))
	if err != nil {
		fatal(2, "checks.json: %v", err)
	}
	var m map[string]CheckSpec
	if err := json.Unmarshal(b, &m); err != nil {
		fatal(2, "checks.json: %v", err)
	}
	return m
}

func readKnown() KnownFile {
	var k KnownFile
	b, err := os.ReadFile(filepath.Join(verifDir, "known_findings.json"))
	if err == nil {
		json.Unmarshal(b, &k)
	}
	return k
}

func cmdCheck(args []string) {
	fs := flag.NewFlagSet("check", flag.ExitOnError)
	prop := fs.String("prop", "", "property id")
	tier := fs.String("tier", "quick", "quick|thorough")
	only := fs.String("only", "", "run only harnesses whose name contains this")
	noEvidence := fs.Bool("no-evidence", false, "do not write the evidence file")
	fs.Parse(args)
	if t := os.Getenv("VERIF_TIER"); t != "" && *tier == "" {
		*tier = t
	}
	var seed int64
	if s := os.Getenv("VERIF_SEED"); s != "" {
		fmt.Sscan(s, &seed)
	}
	checks := readChecks()
	spec, ok := checks[*prop]
	if !ok {
		fatal(2, "no check configured for %s", *prop)
	}
	known := readKnown()
	start := time.Now()
	prog, _, loadT := loadProgram()
	rp := newReplayer()
	defer rp.close()

	var reports []*harnessReport
	totalViol := 0
	var violLines []string
	var knownLines []string
	var allSamples []interface{}
	allFuncs := map[string]bool{}
	incomplete := false

	for _, hs := range spec.Harnesses {
		if *only != "" && !strings.Contains(hs.Fn, *only) {
			continue
		}
		fn := findFunc(prog, hs.Fn)
		if fn == nil {
			fatal(2, "harness %s not found in the loaded program", hs.Fn)
		}
		params := hs.Quick
		opts := map[string]int{}
		for k, v := range hs.Opts {
			opts[k] = v
		}
		if *tier == "thorough" {
			params = map[string]int{}
			for k, v := range hs.Quick {
				params[k] = v
			}
			for k, v := range hs.Thorough {
				params[k] = v
			}
			for k, v := range hs.TOpts {
				opts[k] = v
			}
		}
		if params == nil {
			params = map[string]int{}
		}
		params["seed"] = int(seed)
		cfg := baseConfig(*tier, seed, opts, params)
		cfg.StopAfterViolations = 48
		cfg.IgnoreForStop = map[string]bool{}
		for _, k := range known.Known {
			if k.Property == *prop && k.Harness == fn.Name() && k.Assert != "" {
				cfg.IgnoreForStop[k.Assert] = true
			}
		}
		if hs.Solver != "" && os.Getenv("GOSYM_SOLVER") == "" {
			cfg.SolverKind = hs.Solver
		}
		hstart := time.Now()
		ex := &interp.Explorer{Prog: prog, Fn: fn, Cfg: cfg}
		if err := ex.Run(); err != nil {
			fatal(2, "explorer: %v", err)
		}
		name := fn.Name()
		if ex.StoppedOnViolations {
			fmt.Printf("  %s: exploration stopped after %d violating paths (the verdict of this harness is settled)\n", name, cfg.StopAfterViolations)
		}
		rep := &harnessReport{
			Fn: hs.Fn, Bounds: hs.Bounds, Params: params,
			Paths: ex.Stats.Paths, PathsDone: ex.Stats.PathsOK, Infeasible: ex.Stats.Infeasible,
			Decisions: ex.Stats.Decisions, DomainDecided: ex.Stats.DomainDecided,
			Queries: map[string]int{"total": ex.SolverQueries, "sat": ex.SolverSat, "unsat": ex.SolverUnsat, "unknown": ex.SolverUnknown, "errors": ex.SolverErrors,
				"branch": int(ex.Stats.BranchQueries), "assert": int(ex.Stats.AssertQueries), "path_confirm": int(ex.Stats.ConfirmQueries)},
			SolverWallS: ex.SolverWall.Seconds(), LongestMs: float64(ex.SolverLongest.Microseconds()) / 1000,
			Asserts: ex.Stats.Asserts, AssertsConcrete: ex.Stats.ConcreteAsserts, AssertsProved: ex.Stats.AssertProved, AssertsUnknown: ex.Stats.AssertUnknown,
			Steps: ex.Stats.Steps, Cover: ex.Covers, Unencodable: ex.Unenc, BoundExceeded: ex.Bounds, Truncated: ex.Truncated,
			funcs: ex.FuncsSeen, StubSkipped: ex.StubDiverged, Unconfirmed: ex.Unconfirmed, StubViolations: ex.Stats.StubViolations, UnknownAsserts: ex.UnknownAsserts,
		}
		if len(ex.Unenc) > 0 || len(ex.Bounds) > 0 || ex.Truncated || ex.Stats.AssertUnknown > 0 || ex.Stats.BranchUnknown > 0 || ex.Stats.ConfirmBad > 0 {
			incomplete = true
		}
		for _, c := range hs.Require {
			if ex.Covers[c] == 0 {
				rep.MissingCover = append(rep.MissingCover, c)
				incomplete = true
			}
		}
		// --- validation of sampled passing paths against the native build ---
		nval := 8
		if *tier == "thorough" {
			nval = 64
		}
		if v, ok := opts["validate"]; ok {
			nval = v
		}
		samples := ex.Samples
		if len(samples) > nval {
			// spread deterministically by seed
			step := len(samples) / nval
			var pick []interp.PathResult
			for i := int(seed) % step; i < len(samples) && len(pick) < nval; i += step {
				pick = append(pick, samples[i])
			}
			samples = pick
		}
		var vecs [][][2]interface{}
		for _, s := range samples {
			vecs = append(vecs, s.Vector)
		}
		if len(vecs) > 0 {
			outs := rp.run(name, params, vecs, 60*time.Second)
			for i, o := range outs {
				s := samples[i]
				want := "ok"
				if s.Outcome == "panic" {
					want = "panic"
				}
				got := o.Result
				if got == "crash" {
					got = "panic"
				}
				okd := got == want && equalStrings(o.Digest, s.Digest)
				if want == "panic" && got == "ok" && strings.HasPrefix(o.Detail, "expected panic") {
					okd = equalStrings(o.Digest, s.Digest)
				}
				if okd {
					rep.Validated++
				} else {
					rep.Mismatches = append(rep.Mismatches, fmt.Sprintf("input {%s}: engine %s %v / native %s %v %s", vecString(s.Vector), s.Outcome, s.Digest, o.Result, o.Digest, o.Detail))
				}
				if len(rep.samples) < 6 {
					rep.samples = append(rep.samples, map[string]interface{}{"harness": name, "input": vecString(s.Vector), "observed": s.Digest, "notes": s.Notes, "native_agrees": okd})
				}
			}
		}
		// --- violations: replay natively, then classify ---
		seen := map[string]bool{}
		perID := map[string]int{}
		var vvecs [][][2]interface{}
		type vref struct {
			v interp.Violation
		}
		var vrefs []vref
		for _, pr := range ex.Violations {
			for _, v := range pr.Violations {
				key := v.AssertID + "|" + vecString(v.Vector)
				if seen[key] {
					continue
				}
				seen[key] = true
				perID[v.AssertID]++
				if perID[v.AssertID] > 12 || len(vvecs) >= 120 {
					continue
				}
				vvecs = append(vvecs, v.Vector)
				vrefs = append(vrefs, vref{v})
			}
		}
		if len(vvecs) > 0 {
			vrp := rp
			if strings.HasPrefix(name, "C14_") {
				// the store the engine saw becomes observable natively as a data race
				vrp = rp.withRace()
				rp.raceBin = vrp.raceBin
			}
			outs := vrp.run(name, params, vvecs, 120*time.Second)
			for i, o := range outs {
				v := vrefs[i].v
				reproduced := o.Result == "violation" || o.Result == "panic" || o.Result == "crash"
				if !reproduced {
					// the engine runs every path from fresh package state; the batch
					// process had run other vectors before this one: judge it again
					// alone in a process of its own
					if solo := vrp.run(name, params, [][][2]interface{}{v.Vector}, 120*time.Second); len(solo) == 1 {
						if solo[0].Result == "violation" || solo[0].Result == "panic" || solo[0].Result == "crash" {
							o = solo[0]
							reproduced = true
						}
					}
				}
				if !reproduced {
					rep.Unreproduced = append(rep.Unreproduced, fmt.Sprintf("%s on {%s}: %s (native: %s %s)", v.AssertID, vecString(v.Vector), v.Detail, o.Result, o.Detail))
					incomplete = true
					continue
				}
				rep.Violations++
				shape := shapeString(v.Vector)
				input := inputString(v.Vector)
				// known finding?
				isKnown := false
				for _, k := range known.Known {
					if k.Property == *prop && k.Harness == name && (k.Assert == "" || k.Assert == o.Assert || k.Assert == v.AssertID) && (k.Shape == "" || k.Shape == shape) && (k.Input == "" || k.Input == input) {
						isKnown = true
						line := fmt.Sprintf("KNOWN-FINDING: property=%s %s [%s %s]", *prop, k.What, name, k.Assert)
						if !contains(knownLines, line) {
							knownLines = append(knownLines, line)
						}
						rep.Known++
					}
				}
				if isKnown {
					continue
				}
				totalViol++
				path := writeReplay(*prop, name, *tier, seed, params, v, o, shape, input)
				violLines = append(violLines, fmt.Sprintf("VIOLATION property=%s replay=%s", *prop, path))
				fmt.Printf("  violated %s in %s: shape=%s input=%q detail=%s native=%s/%s %s\n", v.AssertID, name, shape, input, v.Detail, o.Result, o.Assert, o.Detail)
				for _, f := range v.Foreign {
					fmt.Printf("    store: %s\n", f)
				}
			}
		}
		// --- paths that exhausted the budget: for termination / complexity
		// properties the native run of the same input is the judge (it fails its
		// own assertion, overflows the stack, or does not finish in time)
		if br, set := opts["bound_replay"]; (!set || br == 1) && len(ex.BoundPaths) > 0 {
			var bvecs [][][2]interface{}
			for _, bp := range ex.BoundPaths {
				if len(bvecs) < 6 {
					bvecs = append(bvecs, bp.Vector)
				}
			}
			outs := rp.run(name, params, bvecs, 30*time.Second)
			for i, o := range outs {
				if o.Result == "violation" || o.Result == "panic" || o.Result == "crash" {
					v := interp.Violation{AssertID: "budget-exceeded", Detail: ex.BoundPaths[i].Msg, Vector: bvecs[i], Notes: ex.BoundPaths[i].Notes}
					shape := shapeString(v.Vector)
					input := inputString(v.Vector)
					rep.Violations++
					totalViol++
					path := writeReplay(*prop, name, *tier, seed, params, v, o, shape, input)
					violLines = append(violLines, fmt.Sprintf("VIOLATION property=%s replay=%s", *prop, path))
					fmt.Printf("  violated budget-exceeded in %s: shape=%s input=%q engine=%s native=%s/%s %s\n", name, shape, input, v.Detail, o.Result, o.Assert, o.Detail)
				}
			}
		}
		// --- paths the engine could not carry on with (an operation it does not
		// encode): they stay inconclusive, but the model reached so far is run
		// natively, and a native failure is a violation in its own right
		if len(ex.UnencPaths) > 0 {
			var uvecs [][][2]interface{}
			for _, up := range ex.UnencPaths {
				uvecs = append(uvecs, up.Vector)
			}
			urp := rp
			if strings.HasPrefix(name, "C14_") {
				urp = rp.withRace()
				rp.raceBin = urp.raceBin
			}
			outs := urp.run(name, params, uvecs, 60*time.Second)
			for i, o := range outs {
				if o.Result == "violation" || o.Result == "panic" || o.Result == "crash" {
					v := interp.Violation{AssertID: "unencodable-path-fails-natively", Detail: ex.UnencPaths[i].Msg, Vector: uvecs[i], Notes: ex.UnencPaths[i].Notes}
					shape := shapeString(v.Vector)
					input := inputString(v.Vector)
					rep.Violations++
					totalViol++
					path := writeReplay(*prop, name, *tier, seed, params, v, o, shape, input)
					violLines = append(violLines, fmt.Sprintf("VIOLATION property=%s replay=%s", *prop, path))
					fmt.Printf("  violated (natively, on a path the engine could not finish) in %s: shape=%s input=%q engine=%s native=%s/%s %s\n", name, shape, input, firstLines(v.Detail, 1), o.Result, o.Assert, o.Detail)
				}
			}
		}
		rep.WallS = time.Since(hstart).Seconds()
		rep.Functions = len(ex.FuncsSeen)
		for f := range ex.FuncsSeen {
			allFuncs[f] = true
		}
		allSamples = append(allSamples, rep.samples...)
		reports = append(reports, rep)
		fmt.Printf("%s %s: paths=%d completed=%d decisions=%d queries=%d (sat %d unsat %d unknown %d) solver=%.1fs asserts=%d proved=%d validated=%d mismatches=%d violations=%d known=%d unenc=%d bound=%d wall=%.1fs\n",
			*prop, name, rep.Paths, rep.PathsDone, rep.Decisions, ex.SolverQueries, ex.SolverSat, ex.SolverUnsat, ex.SolverUnknown, rep.SolverWallS,
			rep.Asserts, rep.AssertsProved, rep.Validated, len(rep.Mismatches), rep.Violations, rep.Known, len(ex.Unenc), len(ex.Bounds), rep.WallS)
		for m, n := range ex.Unenc {
			fmt.Printf("  INCONCLUSIVE unencodable x%d: %s\n", n, m)
		}
		for m, n := range ex.Bounds {
			fmt.Printf("  INCONCLUSIVE bound exceeded x%d: %s\n", n, m)
		}
		for m, n := range ex.UnknownAsserts {
			fmt.Printf("  INCONCLUSIVE solver gave no verdict within the time limit x%d: assertion %s\n", n, m)
		}
		for _, m := range rep.Mismatches {
			fmt.Printf("  ENGINE-MISMATCH %s\n", m)
		}
		for _, m := range rep.Unreproduced {
			fmt.Printf("  ENGINE-MISMATCH (violation not reproduced natively) %s\n", m)
		}
		for _, c := range rep.MissingCover {
			fmt.Printf("  INCONCLUSIVE required cover point unreached: %s\n", c)
		}
	}
	wall := time.Since(start).Seconds()
	if !*noEvidence {
		writeEvidence(*prop, *tier, seed, reports, allSamples, allFuncs, spec, wall, loadT.Seconds(), rp.buildS, totalViol, incomplete)
	}
	for _, l := range knownLines {
		fmt.Println(l)
	}
	for i, l := range violLines {
		if i >= 8 {
			fmt.Printf("(%d further violating inputs not listed)\n", len(violLines)-i)
			break
		}
		fmt.Println(l)
	}
	if totalViol > 0 {
		os.Exit(1)
	}
	fmt.Printf("%s %s: no violation within the stated bounds (wall %.1fs%s)\n", *prop, *tier, wall, map[bool]string{true: "; some parts inconclusive, see above", false: ""}[incomplete])
}

func hasStub(v [][2]interface{}) bool {
	for _, e := range v {
		if n, ok := e[0].(string); ok && strings.HasPrefix(n, "stub:") {
			return true
		}
	}
	return false
}

func contains(l []string, s string) bool {
	for _, x := range l {
		if x == s {
			return true
		}
	}
	return false
}

func equalStrings(a, b []string) bool {
	if len(a) != len(b) {
		return false
	}
	for i := range a {
		if a[i] != b[i] {
			return false
		}
	}
	return true
}

func writeReplay(prop, harness, tier string, seed int64, params map[string]int, v interp.Violation, o replayOutcome, shape, input string) string {
	dir := filepath.Join(verifDir, "replays", prop)
	os.MkdirAll(dir, 0755)
	h := sha1.Sum([]byte(harness + "|" + v.AssertID + "|" + vecString(v.Vector)))
	path := filepath.Join(dir, fmt.Sprintf("%x.json", h[:8]))
	tree, _ := exec.Command("git", "-C", repoDir, "rev-parse", "HEAD^{tree}").Output()
	rec := map[string]interface{}{
		"property": prop, "harness": harness, "tier": tier, "seed": seed, "params": params,
		"repo_tree": strings.TrimSpace(string(tree)), "assert_id": v.AssertID, "detail": v.Detail,
		"vector": strVector(v.Vector), "shape": shape, "canonical_input": input, "canonical": v.Canonical,
		"native_result": o.Result, "native_assert": o.Assert, "native_detail": o.Detail, "notes": v.Notes, "foreign_stores": v.Foreign,
	}
	b, _ := json.MarshalIndent(rec, "", " ")
	os.WriteFile(path, b, 0644)
	return path
}

func writeEvidence(prop, tier string, seed int64, reports []*harnessReport, samples []interface{}, funcs map[string]bool, spec CheckSpec, wall, loadS, buildS float64, viol int, incomplete bool) {
	var states, transitions, validated int64
	var queries int
	var solverS float64
	for _, r := range reports {
		states += r.PathsDone
		transitions += r.Decisions
		validated += int64(r.Validated)
		queries += r.Queries["total"]
		solverS += r.SolverWallS
	}
	var fl []string
	for f := range funcs {
		if strings.Contains(f, "opsidian/parsley") || strings.HasPrefix(f, "strconv.") || strings.HasPrefix(f, "unicode/utf8.") || strings.HasPrefix(f, "sort.") || strings.HasPrefix(f, "bytes.") {
			fl = append(fl, f)
		}
	}
	sort.Strings(fl)
	if len(samples) == 0 {
		samples = []interface{}{"no completed path was sampled"}
	}
	ev := map[string]interface{}{
		"property_id": prop, "tier": tier, "seed": seed, "level": "model_checking",
		"coverage": map[string]interface{}{
			"states":      states,
			"transitions": transitions,
			"traces_validated_against_impl": validated,
			"samples":     samples,
			"explanation": "states = completed symbolic paths (each a class of inputs characterised by its path condition, certified satisfiable by the solver); transitions = branch decisions resolved over symbolic conditions; every assertion on every path is either concrete on that path or discharged by an SMT query (pathcond ∧ ¬assertion unsat)",
			"harnesses":   reports,
			"functions_encoded": fl,
			"solver_queries": queries,
			"solver_wall_s":  solverS,
			"load_and_ssa_build_s": loadS,
			"native_build_s": buildS,
			"complete_within_bounds": !incomplete,
			"exhaustive": false,
		},
		"assumptions": spec.Assumptions,
		"wall_s":      wall,
		"violations":  viol,
	}
	os.MkdirAll(filepath.Join(verifDir, "evidence"), 0755)
	b, _ := json.MarshalIndent(ev, "", " ")
	os.WriteFile(filepath.Join(verifDir, "evidence", prop+".json"), b, 0644)
}

func cmdReplay(args []string) {
	fs := flag.NewFlagSet("replay", flag.ExitOnError)
	fs.Parse(args)
	if fs.NArg() < 1 {
		fatal(2, "usage: gosym replay <file>")
	}
	b, err := os.ReadFile(fs.Arg(0))
	if err != nil {
		fatal(2, "%v", err)
	}
	var rec struct {
		Property string            `json:"property"`
		Harness  string            `json:"harness"`
		Params   map[string]int    `json:"params"`
		Vector   [][2]interface{}  `json:"vector"`
		AssertID string            `json:"assert_id"`
	}
	if err := json.Unmarshal(b, &rec); err != nil {
		fatal(2, "%v", err)
	}
	rp := newReplayer()
	defer rp.close()
	run := rp
	if strings.HasPrefix(rec.Harness, "C14_") {
		run = rp.withRace()
		rp.raceBin = run.raceBin
	}
	outs := run.run(rec.Harness, rec.Params, [][][2]interface{}{rec.Vector}, 120*time.Second)
	o := outs[0]
	fmt.Printf("native replay of %s on {%s}: %s %s %s\n", rec.Harness, vecString(rec.Vector), o.Result, o.Assert, o.Detail)
	if o.Result == "violation" || o.Result == "panic" || o.Result == "crash" {
		fmt.Printf("VIOLATION property=%s replay=%s\n", rec.Property, fs.Arg(0))
		rp.close()
		os.Exit(1)
	}
}
