#!/usr/bin/env python3
# Regenerates MANIFEST.json from the table below (kept in one place so the
# manifest stays valid and in step with checks.json).
import json
ids=[f"C{i:02d}" for i in range(1,18)]
GRAM_NOTE="Trusted: go/packages+go/ssa, the gosym interpreter/simplifier/SMT printer (byte-domain propagation decides single-byte branch conditions, every completed path condition is certified by z3 and the replayed model is z3's), z3 4.8.12, the harness oracle. Grammars: the bounded family F (enumerated), inputs symbolic. Violations are reported only after native replay against the real build; sampled passing paths are replayed natively and their observation digests compared."
def gram(text, ref, tech="symbolic execution of go/ssa over symbolic input bytes + SMT (z3) path feasibility/models; grammar family enumerated; native replay"):
    return dict(text=text, note=GRAM_NOTE, technique=tech, ref=ref)
claimed = {
 "C01": gram("Bounded symbolic model checking of the real combinators: for every grammar of the curated family F and every input of length <= N (bytes symbolic, all 256 values except CR) the alternatives returned by the memoized root nonterminal are compared with an independent least-fixpoint reference semantics (ends always, trees when finitely many), plus span contiguity of every returned tree. Each explored path stands for a whole class of inputs (its path condition).", "DESIGN.md section 4 C01"),
 "C02": gram("Same family (recursive grammars) and inputs: activation probes inside and outside every Memoize assert at every call that no memoized parser is active more than remaining+2 (inside) times at one position; termination within the engine's step/depth budget is required of every path (an exceeded budget is reported, never counted as success).", "DESIGN.md section 4 C02"),
 "C03": gram("Relational check on the same symbolic input: plain build vs. build with a chosen subset of sub-parsers memoized (with/without memoized nonterminals): identical ordered results, error position and message, furthest context error position, at most one run per position under Memoize, identical second run with a fresh context (map iteration rotations explored).", "DESIGN.md section 4 C03"),
 "C04": gram("For every grammar of F (Any/Choice named or not) and every input of length <= N: parsley.Parse returns exactly one of node/error for plain and Sentence roots, Sentence succeeds iff the reference derives the whole input and then spans it, Evaluate with an interpreter on every non-terminal returns value xor error and never panics (a Go panic on any path is a violation).", "DESIGN.md section 4 C04"),
 "C06": gram("For every grammar of F and every non-matching input of length <= N (line feeds included): the rendered error is parsed back, its line:column is mapped to an offset with the harness's own line table, and compared with the furthest failed terminal / end-of-input attempt recorded by probes (<= always, == when Any/Choice are named); the expectation must be one that failed there; the position inside the wrapped parsley.Error (empty FileSet run) must agree.", "DESIGN.md section 4 C06"),
 "C07": gram("Snapshot probes around every parser of every grammar of F plus six sharing shapes: each returned node/list is re-rendered through the value that was returned at the end of the parse and after asking every memoized nonterminal again at every position; any difference is a violation. The RightTrim-in-place finding is listed in known_findings.json.", "DESIGN.md section 4 C07"),
 "C14": gram("By reduction instead of exploring interleavings: the engine logs every store; for every grammar of F and every input of length <= N the parse/evaluate phase must perform no non-atomic store into any object that existed before it began (parser graph, package-level variables; errors.As modelled as a store through its target). No such store on any feasible path implies no conflicting access pair for any number of goroutines and any schedule. A violating input is replayed natively from 8 goroutines under the race detector.", "DESIGN.md section 4 C14", "symbolic execution of go/ssa with a store log (write-set reduction) + SMT path feasibility; native replay under -race"),
 "C17": gram("For 7 unambiguous families and every word over the family's alphabet of length 2h (h <= H, bytes symbolic): Context.CallCount <= (n+1)^4, calls(2h) <= 16*calls(h) on the prefix, and the count and result are identical on a second run under other map iteration orders. Reduced bound: lengths of several hundred bytes are outside this technique.", "DESIGN.md section 4 C17"),
 "C15": dict(
   text="Bounded symbolic model checking of the real go/ssa of data/intset.go and data/intmap.go: from an arbitrary valid pre-state (any contents as 64-bit symbolic integers, any length/spare-capacity combination up to the bound, built through the public API) one operation pattern is executed symbolically; every result and every earlier value is compared with a list/association-list model by SMT queries (pathcond and not-assertion unsat), plus public-API histories of bounded length. One step from an arbitrary valid state covers histories of any length for the step properties; contents are unrestricted 64-bit values.",
   note="Trusted: go/packages+go/ssa, the gosym interpreter/simplifier/SMT printer, z3 4.8.12, the append-growth table measured from the runtime, the spec model in harness/h15. Bounds: set length <= K (2 quick / 4 thorough), map entries <= N (2 / 3), histories of 2 / 3 operations; map iteration orders = rotations (Go's small-map behaviour) for the first ranges after the operation. Violations are reported only after native replay against the real build.",
   technique="symbolic execution of go/ssa + SMT (z3) over symbolic 64-bit contents; inductive step from arbitrary valid state; native replay",
   ref="DESIGN.md section 4 C15"),
}
reasons = {i:"check not built yet (work in progress; see DESIGN.md section 4)" for i in ids}
m={"version":1,
"setup_cmd":"cd /verif && ./build.sh",
"hooks":{"guard":"verif","enable":"none needed: harnesses live in their own module (/verif/harness, replace => /repo) and the engine loads /repo's working tree through go/packages; /repo is never modified by the machinery","baseline_off_cmd":"cd /repo && go test -vet=off -count=1 ./...","source_commits":[],"add_only":True},
"engines":[{"name":"gosym","path":"/verif/engine","serves_properties":ids,"kind_free_text":"symbolic executor for go/ssa (rebuilt from /repo's working tree on every run) + SMT (z3 -in per worker), native replay of every model against the real build"}],
"checks":[],
"notes":"All checks: ./check <id> quick|thorough; exit 0 = no violation within the stated bounds, exit 1 + VIOLATION line = a solver model that violates an assertion and was reproduced natively, exit 2 = infrastructure failure. known_findings.json lists recorded findings and fixed defects.",
"not_applicable":[]}
for i in ids:
    if i in claimed:
        c=claimed[i]
        m["checks"].append({"property_id":i,"quick_cmd":f"./check {i} quick","thorough_cmd":f"./check {i} thorough","evidence_file":f"/verif/evidence/{i}.json",
          "replay_cmd_template":f"./check replay {i} {{path}}","engine":"gosym",
          "level_claimed":{"category":"model_checking","text":c["text"],"design_ref":c["ref"]},"level_note":c["note"],"technique":c["technique"]})
    else:
        m["not_applicable"].append({"property_id":i,"reason":reasons[i]})
json.dump(m,open("/verif/MANIFEST.json","w"),indent=1)
