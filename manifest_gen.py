#!/usr/bin/env python3
# Regenerates MANIFEST.json from the table below (kept in one place so the
# manifest stays valid and in step with checks.json).
import json
ids=[f"C{i:02d}" for i in range(1,18)]
claimed = {
 "C15": dict(
   text="Bounded symbolic model checking of the real go/ssa of data/intset.go and data/intmap.go: from an arbitrary valid pre-state (any contents as 64-bit symbolic integers, any length/spare-capacity combination up to the bound, built through the public API) one operation pattern is executed symbolically; every result and every earlier value is compared with a list/association-list model by SMT queries (pathcond and not-assertion unsat), plus public-API histories of bounded length. One step from an arbitrary valid state covers histories of any length for the step properties; contents are unrestricted 64-bit values.",
   note="Trusted: go/packages+go/ssa, the gosym interpreter/simplifier/SMT printer, z3 4.8.12, the append-growth table measured from the runtime, the spec model in harness/h15. Bounds: set length <= K (2 quick / 4 thorough), map entries <= N (2 / 3), histories of 2 / 3 operations; map iteration orders = rotations (Go's small-map behaviour) for the first ranges after the operation. Violations are reported only after native replay against the real build.",
   technique="symbolic execution of go/ssa + SMT (z3) over symbolic 64-bit contents; inductive step from arbitrary valid state; native replay",
   ref="DESIGN.md section 4 C15"),
}
reasons = {i:"check not built yet (work in progress; see DESIGN.md section 4)" for i in ids}
m={"version":1,
"setup_cmd":"cd /verif && ./build.sh",
"hooks":{"guard":"verif","enable":"none needed: harnesses live in their own module (/verif/harness, replace => /repo) and the engine loads /repo's working tree through go/packages; /repo is never modified by the machinery","baseline_off_cmd":"cd /repo && go test -vet=off -count=1 ./...","source_commits":[],"add_only":True},
"engines":[{"name":"gosym","path":"/verif/engine","serves_properties":ids,"kind_free_text":"symbolic executor for go/ssa (rebuilt from /repo's working tree on every run) + SMT (z3 -in per worker), native replay of every model against the real build"}],
"checks":[],
"notes":"All checks: ./check <id> quick|thorough; exit 0 = no violation within the stated bounds, exit 1 + VIOLATION line = a solver model that violates an assertion and was reproduced natively, exit 2 = infrastructure failure. known_findings.json lists recorded findings and fixed defects.",
"not_applicable":[]}
for i in ids:
    if i in claimed:
        c=claimed[i]
        m["checks"].append({"property_id":i,"quick_cmd":f"./check {i} quick","thorough_cmd":f"./check {i} thorough","evidence_file":f"/verif/evidence/{i}.json",
          "replay_cmd_template":f"./check replay {i} {{path}}","engine":"gosym",
          "level_claimed":{"category":"model_checking","text":c["text"],"design_ref":c["ref"]},"level_note":c["note"],"technique":c["technique"]})
    else:
        m["not_applicable"].append({"property_id":i,"reason":reasons[i]})
json.dump(m,open("/verif/MANIFEST.json","w"),indent=1)
