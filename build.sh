#!/bin/sh
# Builds the framework from files on disk only (offline).
set -e
export GOFLAGS=-mod=mod GOPROXY=off GOSUMDB=off GOTOOLCHAIN=local
cd "$(dirname "$0")/engine"
mkdir -p ../bin
go build -o ../bin/gosym ./cmd/gosym
