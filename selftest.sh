#!/bin/sh
# ./check selftest — checks of the machinery itself (not a property check):
#  1. tiny harnesses with known path counts; reachability twin and an overflow
#     witness must be reported violated and reproduce natively
#  2. the propagators in front of the solver change nothing (same paths, same verdicts)
#  3. z3 4.8.12, z3 5.1.0 and cvc5 agree on path counts and verdicts
#  4. native exhaustive enumeration: every reference oracle agrees with the real
#     library on small alphabets (for C16 also with the real encoding/json)
export GOFLAGS=-mod=mod GOPROXY=off GOSUMDB=off GOTOOLCHAIN=local
cd "$(dirname "$0")" || exit 2
export GOSYM_VERIF="$(pwd)"
fail=0
say() { echo "selftest: $*"; }
sum() { grep -E "^[A-Z0-9]+ [A-Za-z0-9_]+: paths=" | sed -E 's/ solver=[0-9.]+s//; s/ wall=[0-9.]+s//; s/queries=[0-9]+ \(sat [0-9]+ unsat [0-9]+ unknown [0-9]+\) //; s/decisions=[0-9]+ //; s/asserts=[0-9]+ proved=[0-9]+ //'; }

out=$(bin/gosym check -prop SELF -no-evidence 2>&1) || { say "SELF harnesses reported a violation"; fail=1; }
echo "$out" | grep -q "Self_Bytes: paths=25 completed=25" || { say "Self_Bytes: unexpected path count"; fail=1; }
echo "$out" | grep -q "Self_Sort: paths=10 completed=10" || { say "Self_Sort: unexpected path count"; fail=1; }
echo "$out" | grep -q "mismatches=[1-9]" && { say "engine/native mismatch in SELF"; fail=1; }

bin/gosym check -prop SELFTWIN -no-evidence >/tmp/selftest.$$ 2>&1 && { say "reachability twin was NOT reported"; fail=1; }
grep -q "^VIOLATION property=SELFTWIN" /tmp/selftest.$$ || { say "twin: no VIOLATION line"; fail=1; }
bin/gosym check -prop SELFOVF -no-evidence >/tmp/selftest.$$ 2>&1 && { say "overflow witness was NOT found"; fail=1; }
grep -q "x#0=9223372036854775807" /tmp/selftest.$$ || grep -q "9223372036854775807" replays/SELFOVF/*.json 2>/dev/null || { say "overflow witness is not MaxInt64"; fail=1; }
rm -rf /tmp/selftest.$$ replays/SELFTWIN replays/SELFOVF

for p in C09 C01; do
  a=$(bin/gosym check -prop $p -no-evidence 2>&1 | sum)
  b=$(GOSYM_NOBYTEDOM=1 GOSYM_NOINTERVALS=1 bin/gosym check -prop $p -no-evidence 2>&1 | sum)
  [ "$a" = "$b" ] || { say "$p: propagators change the result"; echo "$a"; echo "$b"; fail=1; }
done
for s in z3-new cvc5; do
  # C11: the two original harnesses (the long-table variants sum many symbolic
  # lengths and are only registered with the solver that decides them)
  for p in "SELF" "C11 -only C11_Offsets" "C11 -only C11_LineColumn"; do
    a=$(bin/gosym check -prop $p -no-evidence 2>&1 | sum)
    b=$(GOSYM_SOLVER=$s bin/gosym check -prop $p -no-evidence 2>&1 | sum)
    [ "$a" = "$b" ] || { say "$p: $s disagrees with z3"; echo "$a"; echo "$b"; echo SOLVER-DISAGREE; fail=1; }
  done
done

tmp=$(mktemp -d)
(cd harness && go build -o $tmp/replay ./cmd/replay) || { say "native build failed"; fail=1; }
en() { $tmp/replay -enum "$@" | tail -1 | grep -q "map\[.*ok:" || { say "native enumeration failed: $*"; $tmp/replay -enum "$@" | tail -5; fail=1; }; $tmp/replay -enum "$@" | grep -q "violation\|panic" && { say "native enumeration found a disagreement: $*"; fail=1; }; }
en C01_Derivations -alphabet 'abx' -params N=4
en C04_NodeXorError -alphabet 'abx' -params N=3
en C06_FurthestFailure -alphabet 'abx\n' -params N=3
en C03_MemoTransparent -alphabet 'abx' -params N=3
en C05_ArithFree -alphabet '12+-*/() 0' -params N=4
en C08_String -alphabet '\"\\\\nqx4\x80\n' -params N=4
en C08_Integer -alphabet '0129x-.a' -params N=4
en C08_Char -alphabet "'"'\\\\nx4\xc3\xa9' -params N=4
en C10_Modes -alphabet ' \n\tab' -params tokens=2,level_first=2,level_rest=2,lead=1,gap=2,trail=1 -max 400000
en C16_Free -alphabet '[]{}\":,1 .-\n' -params N=4
en C15_SetStep -ints 1,2,3 -params K=3
rm -rf $tmp
if [ $fail = 0 ]; then say "all self-checks passed"; exit 0; fi
exit 1
