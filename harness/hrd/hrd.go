// Package hrd: harnesses for C09 (text reader primitives vs. a byte-level
// specification, for every content, base offset, position and argument).
package hrd

import (
	"github.com/opsidian/parsley/parsley"
	"github.com/opsidian/parsley/text"

	"vh/rt"
)

func init() {
	rt.Register("C09_ReadRune", C09_ReadRune)
	rt.Register("C09_MatchString", C09_MatchString)
	rt.Register("C09_MatchWord", C09_MatchWord)
	rt.Register("C09_Misc", C09_Misc)
	rt.Register("C09_SkipWhitespaces", C09_SkipWhitespaces)
	rt.Register("C09_Readf", C09_Readf)
	rt.Register("C09_ReadfContract", C09_ReadfContract)
	rt.Register("C09_ReadRegexp", C09_ReadRegexp)
}

const maxOffset = 1 << 40

// setup builds a real file with symbolic raw content at a symbolic base
// offset and returns the reader, the specification's own CRLF-normalised
// copy of the content, the base offset and a position inside the file.
func setup(maxLen int) (r *text.Reader, data []byte, o int, c int) {
	long := rt.Param("long", 0)
	n := long
	if long == 0 {
		n = rt.Choose("len", maxLen+1)
	}
	raw := make([]byte, n)
	for i := range raw {
		switch {
		case long == 0 || i == long/4 || i == long/2 || i == long/2+1 || i == long-1:
			raw[i] = rt.Byte("in")
		case i < long/2:
			// first half: a run of spaces and tabs
			raw[i] = " \t"[i%5/4]
		default:
			// second half: a run of lower-case letters
			raw[i] = 'a' + byte(i%26)
		}
	}
	// the specification's normalisation: every CR LF pair becomes LF
	for i := 0; i < len(raw); i++ {
		if raw[i] == '\r' && i+1 < len(raw) && raw[i+1] == '\n' {
			rt.Cover("CRLF pair in the content")
			continue
		}
		data = append(data, raw[i])
	}
	cp := make([]byte, len(raw))
	copy(cp, raw)
	f := text.NewFile("f", cp)
	o = rt.IntRange("offset", 1, maxOffset)
	f.SetOffset(o)
	r = text.NewReader(f)
	if long > 0 {
		rt.Cover("long content")
		cs := []int{0, 1, long/2 - 1, long / 2, len(data) - 2, len(data)}
		c = cs[rt.Choose("cursor", len(cs))]
		if c > len(data) || c < 0 {
			c = len(data)
		}
	} else {
		c = rt.Choose("cursor", len(data)+1)
	}
	if f.Len() != len(data) {
		rt.Fail("normalised-length", "File.Len differs from the CRLF-normalised length")
	}
	if o != 1 {
		rt.Cover("non-default base offset")
	}
	return r, data, o, c
}

func pos(o, c int) parsley.Pos { return parsley.Pos(o + c) }

// common post-conditions: match => new = old + matched length <= end of file;
// mismatch => new == old.
func checkMove(id string, o, c, n int, np parsley.Pos, found bool, wantFound bool, wantLen int) {
	rt.ObsBool(id+".found", found)
	rt.ObsInt(id+".moved", int(np)-(o+c))
	if found != wantFound {
		rt.Fail(id+"/found", "match result differs from the specification")
		return
	}
	if found {
		rt.Assert(int(np) == o+c+wantLen, id+"/new-position")
		rt.Assert(int(np) <= o+n, id+"/within-file")
	} else {
		rt.Assert(int(np) == o+c, id+"/position-unchanged")
	}
}

func encodeRune(ch rune) []byte {
	switch {
	case ch < 0x80:
		return []byte{byte(ch)}
	case ch < 0x800:
		return []byte{0xC0 | byte(ch>>6), 0x80 | byte(ch)&0x3F}
	case ch < 0x10000:
		return []byte{0xE0 | byte(ch>>12), 0x80 | byte(ch>>6)&0x3F, 0x80 | byte(ch)&0x3F}
	}
	return []byte{0xF0 | byte(ch>>18), 0x80 | byte(ch>>12)&0x3F, 0x80 | byte(ch>>6)&0x3F, 0x80 | byte(ch)&0x3F}
}

func hasPrefixAt(data []byte, c int, p []byte) bool {
	if c+len(p) > len(data) {
		return false
	}
	for i := range p {
		if data[c+i] != p[i] {
			return false
		}
	}
	return true
}

// C09_ReadRune: any valid scalar value as argument.
func C09_ReadRune() {
	r, data, o, c := setup(rt.Param("L", 4))
	ch := rt.Rune("ch")
	rt.Assume(ch >= 0 && ch <= 0x10FFFF && !(ch >= 0xD800 && ch <= 0xDFFF))
	np, found := r.ReadRune(pos(o, c), ch)
	enc := encodeRune(ch)
	want := hasPrefixAt(data, c, enc)
	if ch >= 0x80 {
		rt.Cover("multi-byte rune argument")
	}
	if ch == 0xFFFD && !want {
		// U+FFFD also stands for "invalid encoding" in utf8.DecodeRune: only
		// the real three-byte encoding is claimed; the rest must stay in bounds
		if found {
			rt.Assert(int(np) > o+c && int(np) <= o+len(data), "rune/fffd-in-bounds")
		} else {
			rt.Assert(int(np) == o+c, "rune/fffd-unchanged")
		}
		return
	}
	if want && len(enc) > 1 {
		rt.Cover("multi-byte rune matched")
	}
	checkMove("rune", o, c, len(data), np, found, want, len(enc))
}

func symString(tag string, n int, asciiOnly bool) string {
	b := make([]byte, n)
	for i := range b {
		b[i] = rt.Byte(tag)
		if asciiOnly {
			rt.Assume(b[i] < 0x80)
		}
	}
	return string(b)
}

// C09_MatchString: any non-empty byte string as argument.
func C09_MatchString() {
	r, data, o, c := setup(rt.Param("L", 4))
	k := 1 + rt.Choose("arglen", rt.Param("A", 3))
	str := symString("arg", k, false)
	if al := rt.Param("AL", 0); al > 0 && c+al <= len(data) {
		// a long argument: the content itself followed by the symbolic bytes
		str = string(data[c:c+al]) + str
		k += al
	}
	np, found := r.MatchString(pos(o, c), str)
	want := hasPrefixAt(data, c, []byte(str))
	if want {
		rt.Cover("string matched")
		if c+k == len(data) {
			rt.Cover("match ends exactly at end of file")
		}
	}
	checkMove("string", o, c, len(data), np, found, want, k)
}

func isWordByte(b byte) bool {
	return 'a' <= b && b <= 'z' || 'A' <= b && b <= 'Z' || '0' <= b && b <= '9' || b == '_'
}

// C09_MatchWord: any non-empty ASCII word as argument.
func C09_MatchWord() {
	r, data, o, c := setup(rt.Param("L", 4))
	k := 1 + rt.Choose("arglen", rt.Param("A", 3))
	word := symString("arg", k, true)
	np, found := r.MatchWord(pos(o, c), word)
	want := hasPrefixAt(data, c, []byte(word)) && (c+k == len(data) || !isWordByte(data[c+k]))
	if want {
		rt.Cover("word matched")
		if c+k == len(data) {
			rt.Cover("word ends exactly at end of file")
		}
	} else if hasPrefixAt(data, c, []byte(word)) {
		rt.Cover("word prefix followed by a word character")
	}
	checkMove("word", o, c, len(data), np, found, want, k)
}

// C09_Misc: Remaining, IsEOF, Pos.
func C09_Misc() {
	r, data, o, c := setup(rt.Param("L", 4))
	rt.Assert(r.Remaining(pos(o, c)) == len(data)-c, "remaining")
	rt.Assert(r.IsEOF(pos(o, c)) == (c >= len(data)), "iseof")
	k := rt.Int("k")
	rt.Assume(k >= 0 && k <= 1<<20)
	rt.Assert(int(r.Pos(k)) == o+k, "pos")
	rt.ObsInt("remaining", r.Remaining(pos(o, c)))
}

func isWs(b byte) bool { return b == ' ' || b == '\t' || b == '\n' || b == '\f' }

// C09_SkipWhitespaces: the mode table.
func C09_SkipWhitespaces() {
	r, data, o, c := setup(rt.Param("L", 4))
	mode := text.WsMode(rt.Choose("mode", 4))
	end := c
	firstNl := -1
	hasFF := false
	for end < len(data) && isWs(data[end]) {
		if data[end] == '\n' && firstNl < 0 {
			firstNl = end
		}
		if data[end] == '\f' {
			hasFF = true
		}
		end++
	}
	np, err := r.SkipWhitespaces(pos(o, c), mode)
	rt.ObsInt("skipped", int(np)-(o+c))
	rt.ObsBool("error", err != nil)
	rt.Assert(int(np) == o+end, "ws/skips-exactly-the-run")
	if err != nil {
		rt.Assert(parsley.IsWhitespaceError(err), "ws/error-kind")
		rt.Assert(int(err.Pos()) >= o+c && int(err.Pos()) <= o+end, "ws/error-within-run")
	}
	if hasFF && (mode == text.WsSpaces || mode == text.WsSpacesForceNl) {
		// whether a form feed counts as a line break is not stated: no claim
		return
	}
	switch mode {
	case text.WsNone:
		if end > c {
			if err == nil {
				rt.Fail("ws/none-accepts-whitespace", "")
				return
			}
			rt.Assert(int(err.Pos()) == o+c, "ws/none-error-at-start-of-run")
			rt.Assert(err.Error() == "whitespaces are not allowed", "ws/none-message")
		} else {
			rt.Assert(err == nil, "ws/none-empty-run-ok")
		}
	case text.WsSpaces:
		if firstNl >= 0 {
			if err == nil {
				rt.Fail("ws/spaces-accepts-line-break", "")
				return
			}
			rt.Assert(int(err.Pos()) == o+firstNl, "ws/spaces-error-at-first-line-break")
			rt.Assert(err.Error() == "new line is not allowed", "ws/spaces-message")
		} else {
			rt.Assert(err == nil, "ws/spaces-ok")
		}
	case text.WsSpacesNl:
		rt.Assert(err == nil, "ws/spacesnl-ok")
	case text.WsSpacesForceNl:
		if firstNl < 0 {
			if err == nil {
				rt.Fail("ws/forcenl-accepts-without-line-break", "")
				return
			}
			rt.Assert(int(err.Pos()) == o+end, "ws/forcenl-error-at-end-of-run")
			rt.Assert(err.Error() == "was expecting a new line", "ws/forcenl-message")
		} else {
			rt.Assert(err == nil, "ws/forcenl-ok")
		}
	}
}

// C09_Readf: the callback is an environment stub obeying the documented
// contract: it consumes k bytes and returns a value of at most k bytes.
func C09_Readf() {
	r, data, o, c := setup(rt.Param("L", 4))
	called := 0
	var k, m int
	np, val := r.Readf(pos(o, c), func(b []byte) ([]byte, int) {
		called++
		if len(b) != len(data)-c {
			rt.Fail("readf/argument-length", "the callback did not get exactly the rest of the file")
			return nil, 0
		}
		for i := range b {
			rt.Assert(b[i] == data[c+i], "readf/argument-bytes")
		}
		k = rt.Choose("consumed", len(b)+1)
		if k == 0 {
			return nil, 0
		}
		m = rt.Choose("valuelen", k+1)
		return b[:m], k
	})
	if c >= len(data) {
		rt.Assert(called == 0 && val == nil && int(np) == o+c, "readf/not-called-at-eof")
		return
	}
	rt.Assert(called == 1, "readf/called-once")
	if k == 0 {
		rt.Assert(val == nil && int(np) == o+c, "readf/no-match-unchanged")
		return
	}
	rt.Assert(int(np) == o+c+k, "readf/new-position")
	rt.Assert(len(val) == m, "readf/value")
	rt.ObsInt("moved", int(np)-(o+c))
}

// C09_ReadfContract: contract violations hit the documented panics.
func C09_ReadfContract() {
	r, data, o, c := setup(rt.Param("L", 3))
	if c >= len(data) {
		rt.Assume(false)
	}
	kind := rt.Choose("violation", 3)
	rt.ExpectPanic()
	r.Readf(pos(o, c), func(b []byte) ([]byte, int) {
		switch kind {
		case 0: // value with zero length consumed
			return []byte{}, 0
		case 1: // consumed beyond the end of the file
			return nil, len(b) + 1
		}
		// value longer than what was consumed
		return make([]byte, 2), 1
	})
	rt.Fail("readf/contract-violation-accepted", "Readf accepted a result that breaks its documented contract")
}

// ---- regexps: hand specifications for a fixed pattern list ----

func isLower(b byte) bool { return b >= 'a' && b <= 'z' }

// specMatch returns the length of the leftmost-first match of pattern k at
// c, or -1, and the group slices (start,end pairs relative to c; -1 unset).
func specMatch(k int, data []byte, c int) (int, []int) {
	at := func(i int) (byte, bool) {
		if c+i < len(data) {
			return data[c+i], true
		}
		return 0, false
	}
	switch k {
	case 0: // [a-z]+
		n := 0
		for {
			b, ok := at(n)
			if !ok || !isLower(b) {
				break
			}
			n++
		}
		if n == 0 {
			return -1, nil
		}
		return n, []int{0, n}
	case 1: // a|ab   (first match: "a")
		if b, ok := at(0); ok && b == 'a' {
			return 1, []int{0, 1}
		}
		return -1, nil
	case 2: // (a)(b)?
		if b, ok := at(0); ok && b == 'a' {
			if b2, ok2 := at(1); ok2 && b2 == 'b' {
				return 2, []int{0, 2, 0, 1, 1, 2}
			}
			return 1, []int{0, 1, 0, 1, -1, -1}
		}
		return -1, nil
	case 3: // \s+  = [\t\n\f\r ]+
		n := 0
		for {
			b, ok := at(n)
			if !ok || !(b == '\t' || b == '\n' || b == '\f' || b == '\r' || b == ' ') {
				break
			}
			n++
		}
		if n == 0 {
			return -1, nil
		}
		return n, []int{0, n}
	}
	return -1, nil
}

var patterns = []string{`[a-z]+`, `a|ab`, `(a)(b)?`, `\s+`}

// C09_ReadRegexp: the plumbing around the regular expression matcher.
func C09_ReadRegexp() {
	r, data, o, c := setup(rt.Param("L", 4))
	k := rt.Choose("pattern", len(patterns))
	wantLen, groups := specMatch(k, data, c)
	if rt.Choose("submatch", 2) == 0 {
		np, m := r.ReadRegexp(pos(o, c), patterns[k])
		rt.ObsInt("moved", int(np)-(o+c))
		if wantLen < 0 {
			rt.Assert(m == nil && int(np) == o+c, "regexp/no-match-unchanged")
			return
		}
		rt.Cover("regexp matched")
		if m == nil {
			rt.Fail("regexp/match-missed", patterns[k])
			return
		}
		rt.Assert(int(np) == o+c+wantLen, "regexp/new-position")
		rt.Assert(int(np) <= o+len(data), "regexp/within-file")
		if len(m) != wantLen {
			rt.Fail("regexp/match-length", patterns[k])
			return
		}
		for i := range m {
			rt.Assert(m[i] == data[c+i], "regexp/match-bytes")
		}
		return
	}
	np, ms := r.ReadRegexpSubmatch(pos(o, c), patterns[k])
	rt.ObsInt("moved", int(np)-(o+c))
	if wantLen < 0 {
		rt.Assert(ms == nil && int(np) == o+c, "submatch/no-match-unchanged")
		return
	}
	if ms == nil {
		rt.Fail("submatch/match-missed", patterns[k])
		return
	}
	rt.Assert(int(np) == o+c+wantLen, "submatch/new-position")
	if len(ms) != len(groups)/2 {
		rt.Fail("submatch/group-count", patterns[k])
		return
	}
	for g := range ms {
		s, e := groups[2*g], groups[2*g+1]
		if s < 0 {
			rt.Assert(len(ms[g]) == 0, "submatch/unset-group")
			continue
		}
		if len(ms[g]) != e-s {
			rt.Fail("submatch/group-length", patterns[k])
			return
		}
		for i := range ms[g] {
			rt.Assert(ms[g][i] == data[c+s+i], "submatch/group-bytes")
		}
	}
}
