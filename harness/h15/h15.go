// Package h15: harnesses for C15 (IntSet / IntMap are persistent).
package h15

import (
	"github.com/opsidian/parsley/data"

	"vh/rt"
)

func init() {
	rt.Register("C15_SetStep", C15_SetStep)
	rt.Register("C15_MapStep", C15_MapStep)
	rt.Register("C15_History", C15_History)
	rt.Register("C15_Large", C15_Large)
}

// ---- specification model: sorted duplicate-free list / association list ----

func specInsert(m []int, v int) []int {
	out := make([]int, 0, len(m)+1)
	done := false
	for _, x := range m {
		if !done && v < x {
			out = append(out, v)
			done = true
		}
		if x == v {
			done = true
		}
		out = append(out, x)
	}
	if !done {
		out = append(out, v)
	}
	return out
}

func specUnion(a, b []int) []int {
	out := append([]int{}, a...)
	for _, v := range b {
		out = specInsert(out, v)
	}
	return out
}

func setList(s data.IntSet) []int {
	var l []int
	s.Each(func(v int) { l = append(l, v) })
	return l
}

// checkSet asserts that s reads exactly as the model m.
func checkSet(s data.IntSet, m []int, id string) {
	l := setList(s)
	if s.Len() != len(m) || len(l) != len(m) {
		rt.Fail(id+"/len", "length differs from the model")
		return
	}
	rt.ObsInt(id+".len", len(l))
	for i := range m {
		rt.ObsInt(id, l[i])
		rt.Assert(l[i] == m[i], id+"/elem")
	}
	for i := 1; i < len(l); i++ {
		rt.Assert(l[i-1] < l[i], id+"/ascending")
	}
}

// arbitrarySet builds an arbitrary valid IntSet through the public API:
// NewIntSet with k symbolic values gives len = #distinct and cap = k, i.e.
// every (len, spare capacity) combination with arbitrary contents.
func arbitrarySet(tag string, maxVals int) (data.IntSet, []int) {
	k := rt.Choose(tag+".k", maxVals+1)
	vals := make([]int, k)
	var m []int
	for i := range vals {
		vals[i] = rt.Int(tag + ".v")
		m = specInsert(m, vals[i])
	}
	s := data.NewIntSet(vals...)
	if len(m) < k {
		rt.Cover("pre-state with spare capacity")
	}
	return s, m
}

// C15_SetStep: one operation from an arbitrary valid pre-state.
func C15_SetStep() {
	K := rt.Param("K", 3)
	s, m := arbitrarySet("s", K)
	checkSet(s, m, "constructed")
	switch rt.Choose("op", 6) {
	case 5: // two unions on the same receiver
		t1, m1 := arbitrarySet("t", rt.Param("KU2", 2))
		t2, m2 := arbitrarySet("u", rt.Param("KU2", 2))
		r1 := s.Union(t1)
		r2 := s.Union(t2)
		checkSet(r1, specUnion(m, m1), "union2-first-result")
		checkSet(r2, specUnion(m, m2), "union2-second-result")
		checkSet(s, m, "union2-receiver-unchanged")
		checkSet(t1, m1, "union2-first-argument-unchanged")
		checkSet(t2, m2, "union2-second-argument-unchanged")
	case 0: // Insert
		v := rt.Int("v")
		r := s.Insert(v)
		checkSet(r, specInsert(m, v), "insert-result")
		checkSet(s, m, "insert-receiver-unchanged")
	case 1: // two inserts on the same receiver
		a, b := rt.Int("a"), rt.Int("b")
		r1 := s.Insert(a)
		r2 := s.Insert(b)
		checkSet(r1, specInsert(m, a), "insert2-first-result")
		checkSet(r2, specInsert(m, b), "insert2-second-result")
		checkSet(s, m, "insert2-receiver-unchanged")
	case 2: // Union with an independent arbitrary set
		t, mt := arbitrarySet("t", rt.Param("KU", 2))
		r := s.Union(t)
		checkSet(r, specUnion(m, mt), "union-result")
		checkSet(s, m, "union-receiver-unchanged")
		checkSet(t, mt, "union-argument-unchanged")
		// the result must not be corrupted by a later insert into an operand
		w := rt.Int("w")
		s2 := s.Insert(w)
		checkSet(r, specUnion(m, mt), "union-result-after-insert")
		checkSet(s2, specInsert(m, w), "insert-after-union")
	case 3: // Union with a value sharing history, then insert into the result
		w := rt.Int("w")
		t := s.Insert(w)
		mt := specInsert(m, w)
		r := s.Union(t)
		checkSet(r, specUnion(m, mt), "union-shared-result")
		x := rt.Int("x")
		r2 := r.Insert(x)
		checkSet(r2, specInsert(specUnion(m, mt), x), "insert-into-union")
		checkSet(r, specUnion(m, mt), "union-shared-result-unchanged")
		checkSet(t, mt, "union-shared-argument-unchanged")
		checkSet(s, m, "union-shared-receiver-unchanged")
	case 4: // Len / Each are pure
		n := s.Len()
		rt.Assert(n == len(m), "len")
		checkSet(s, m, "each-pure")
	}
}

// ---- IntMap ----

type kv struct{ k, v int }

func specGet(m []kv, k int) (int, bool) {
	for _, e := range m {
		if e.k == k {
			return e.v, true
		}
	}
	return 0, false
}

func specSet(m []kv, k, v int) []kv {
	out := make([]kv, 0, len(m)+1)
	found := false
	for _, e := range m {
		if e.k == k {
			out = append(out, kv{k, v})
			found = true
		} else {
			out = append(out, e)
		}
	}
	if !found {
		out = append(out, kv{k, v})
	}
	return out
}

func specInc(m []kv, k int) []kv {
	v, ok := specGet(m, k)
	if !ok {
		return specSet(m, k, 1)
	}
	return specSet(m, k, v+1)
}

func specFilter(m []kv, keys []int) []kv {
	var out []kv
	for _, e := range m {
		for _, k := range keys {
			if k == e.k {
				out = append(out, e)
				break
			}
		}
	}
	return out
}

// checkMap asserts that im reads exactly as the model (as a set of pairs).
func checkMap(im data.IntMap, m []kv, id string) {
	keys := im.Keys()
	if len(keys) != len(m) {
		rt.Fail(id+"/len", "number of keys differs from the model")
		return
	}
	// every model entry is present with its value
	for _, e := range m {
		rt.Assert(im.Get(e.k) == e.v, id+"/get")
		n := 0
		for _, k := range keys {
			if k == e.k {
				n++
			}
		}
		rt.Assert(n == 1, id+"/keys")
	}
	// Each visits exactly the model's pairs
	cnt := 0
	okAll := true
	im.Each(func(k, v int) {
		cnt++
		mv, ok := specGet(m, k)
		if !ok || mv != v {
			okAll = false
		}
	})
	rt.Assert(cnt == len(m), id+"/each-count")
	rt.Assert(okAll, id+"/each-pairs")
}

func arbitraryMap(tag string, maxN int) (data.IntMap, []kv) {
	n := rt.Choose(tag+".n", maxN+1)
	var m []kv
	if n == 0 && rt.Choose(tag+".nilmap", 2) == 1 {
		return data.NewIntMap(nil), nil
	}
	im := data.NewIntMap(map[int]int{})
	for i := 0; i < n; i++ {
		k := rt.Int(tag + ".k")
		im = im.Inc(k)
		m = specInc(m, k)
	}
	return im, m
}

// C15_MapStep: one operation from an arbitrary pre-state (built by Inc).
func C15_MapStep() {
	N := rt.Param("N", 3)
	im, m := arbitraryMap("m", N)
	checkMap(im, m, "constructed")
	// the next map iterations (inside the operation under test and the first
	// read-back) run in every order Go's runtime can produce
	rt.PermuteMaps(true)
	switch rt.Choose("op", 4) {
	case 0: // Inc
		k := rt.Int("k")
		r := im.Inc(k)
		checkMap(r, specInc(m, k), "inc-result")
		checkMap(im, m, "inc-receiver-unchanged")
		r2 := im.Inc(k)
		checkMap(r2, specInc(m, k), "inc-again-result")
		checkMap(r, specInc(m, k), "inc-first-result-unchanged")
	case 1: // Filter
		s, ms := arbitrarySet("f", 2)
		r := im.Filter(s)
		checkMap(r, specFilter(m, ms), "filter-result")
		checkMap(im, m, "filter-receiver-unchanged")
		checkSet(s, ms, "filter-argument-unchanged")
		// incrementing the filtered map must not touch the source
		k := rt.Int("k")
		r2 := r.Inc(k)
		checkMap(r2, specInc(specFilter(m, ms), k), "inc-after-filter")
		checkMap(im, m, "filter-source-unchanged-after-inc")
	case 2: // Get of an arbitrary key
		k := rt.Int("k")
		v, ok := specGet(m, k)
		if !ok {
			v = 0
		}
		rt.Assert(im.Get(k) == v, "get")
		checkMap(im, m, "get-pure")
	case 3: // NewIntMap adopts a caller map; Inc on the result must not write it
		src := map[int]int{}
		a, b := rt.Int("a"), rt.Int("b")
		src[a] = b
		w := data.NewIntMap(src)
		r := w.Inc(a)
		checkMap(r, []kv{{a, b + 1}}, "adopted-inc-result")
		checkMap(w, []kv{{a, b}}, "adopted-unchanged")
		rt.Assert(src[a] == b && len(src) == 1, "caller-map-unchanged")
		// Filter keeps a present key whatever its value is (zero, negative)
		f := w.Filter(data.NewIntSet(a))
		checkMap(f, []kv{{a, b}}, "adopted-filter-keeps-present-key")
		c := rt.Int("c")
		if c != a {
			checkMap(w.Filter(data.NewIntSet(c)), nil, "adopted-filter-drops-absent-key")
		}
	}
}

// ---- bounded histories through the public API only ----

type setVal struct {
	s data.IntSet
	m []int
}
type mapVal struct {
	im data.IntMap
	m  []kv
}

func C15_History() {
	steps := rt.Param("steps", 3)
	var sets []setVal
	var maps []mapVal
	// seed values
	s0, m0 := arbitrarySet("s0", rt.Param("S0", 3))
	sets = append(sets, setVal{s0, m0})
	maps = append(maps, mapVal{data.NewIntMap(nil), nil})
	for st := 0; st < steps; st++ {
		rt.PermuteMaps(true)
		switch rt.Choose("kind", 5) {
		case 0: // Insert
			i := rt.Choose("i", len(sets))
			v := rt.Int("v")
			sets = append(sets, setVal{sets[i].s.Insert(v), specInsert(sets[i].m, v)})
		case 1: // Union
			i := rt.Choose("i", len(sets))
			j := rt.Choose("j", len(sets))
			sets = append(sets, setVal{sets[i].s.Union(sets[j].s), specUnion(sets[i].m, sets[j].m)})
		case 2: // NewIntSet
			a, b := rt.Int("a"), rt.Int("b")
			sets = append(sets, setVal{data.NewIntSet(a, b), specInsert(specInsert(nil, a), b)})
		case 3: // Inc
			i := rt.Choose("i", len(maps))
			k := rt.Int("k")
			maps = append(maps, mapVal{maps[i].im.Inc(k), specInc(maps[i].m, k)})
		case 4: // Filter
			i := rt.Choose("i", len(maps))
			j := rt.Choose("j", len(sets))
			maps = append(maps, mapVal{maps[i].im.Filter(sets[j].s), specFilter(maps[i].m, sets[j].m)})
		}
		// every value produced so far still reads as its model
		rt.PermuteMaps(false)
		for _, sv := range sets {
			checkSet(sv.s, sv.m, "history-set")
		}
		for _, mv := range maps {
			checkMap(mv.im, mv.m, "history-map")
		}
	}
}

// C15_Large: the same operations on values with many elements: a concrete
// base set {10,20,..,10B} (built through NewIntSet and a chain of Inserts in
// scrambled order) and a base map with B keys, operands symbolic.
func C15_Large() {
	B := rt.Param("B", 24)
	var vals []int
	for i := 0; i < B; i++ {
		vals = append(vals, 10*(1+(i*11)%B)) // 11 is coprime with both registered sizes
	}
	var m []int
	half := data.NewIntSet(vals[:B/2]...)
	for _, v := range vals[:B/2] {
		m = specInsert(m, v)
	}
	s := half
	for _, v := range vals[B/2:] {
		s = s.Insert(v)
		m = specInsert(m, v)
	}
	checkSet(s, m, "large-constructed")
	if len(m) > 16 {
		rt.Cover("set with more than 16 elements")
	}
	switch rt.Choose("op", 4) {
	case 0: // Insert of a symbolic value anywhere in, between or outside the elements
		v := rt.Int("v")
		r := s.Insert(v)
		checkSet(r, specInsert(m, v), "large-insert-result")
		checkSet(s, m, "large-insert-receiver-unchanged")
		w := rt.Int("w")
		r2 := s.Insert(w)
		checkSet(r2, specInsert(m, w), "large-insert-second-result")
		checkSet(r, specInsert(m, v), "large-insert-first-result-unchanged")
	case 1: // Union with another large set containing a symbolic element
		var mt []int
		t := data.NewIntSet()
		for i := 0; i < B; i += 2 {
			t = t.Insert(10*i + 5)
			mt = specInsert(mt, 10*i+5)
		}
		x := rt.Int("x")
		t = t.Insert(x)
		mt = specInsert(mt, x)
		r := s.Union(t)
		checkSet(r, specUnion(m, mt), "large-union-result")
		checkSet(s, m, "large-union-receiver-unchanged")
		checkSet(t, mt, "large-union-argument-unchanged")
		r2 := t.Union(s)
		checkSet(r2, specUnion(mt, m), "large-union-commuted")
	case 2: // map with B keys: Inc of a symbolic key, twice
		var mm []kv
		im := data.NewIntMap(nil)
		for _, v := range vals {
			im = im.Inc(v)
			mm = specInc(mm, v)
			if v%20 == 0 {
				im = im.Inc(v)
				mm = specInc(mm, v)
			}
		}
		checkMap(im, mm, "large-map-constructed")
		k := rt.Int("k")
		r := im.Inc(k)
		checkMap(r, specInc(mm, k), "large-inc-result")
		checkMap(im, mm, "large-inc-receiver-unchanged")
		want, ok := specGet(mm, k)
		if !ok {
			want = 0
		}
		rt.Assert(im.Get(k) == want, "large-get")
	case 3: // Filter of the large map by the large set plus a symbolic key
		var mm []kv
		im := data.NewIntMap(nil)
		for i := 0; i < B; i++ {
			im = im.Inc(5 * i)
			mm = specInc(mm, 5*i)
		}
		y := rt.Int("y")
		f := s.Insert(y)
		mf := specInsert(m, y)
		r := im.Filter(f)
		checkMap(r, specFilter(mm, mf), "large-filter-result")
		checkMap(im, mm, "large-filter-receiver-unchanged")
		checkSet(f, mf, "large-filter-argument-unchanged")
	}
}
