// Package htrim: harnesses for C10 (whitespace modes are enforced exactly and
// permitted whitespace is transparent).
package htrim

import (
	"github.com/opsidian/parsley/combinator"
	"github.com/opsidian/parsley/data"
	"github.com/opsidian/parsley/parsley"
	"github.com/opsidian/parsley/text"
	"github.com/opsidian/parsley/text/terminal"

	"vh/rt"
)

func init() {
	rt.Register("C10_Modes", C10_Modes)
	rt.Register("C10_TokenKinds", C10_TokenKinds)
}

func itoa(n int) string {
	if n == 0 {
		return "0"
	}
	neg := n < 0
	if neg {
		n = -n
	}
	s := ""
	for n > 0 {
		s = string(rune('0'+n%10)) + s
		n /= 10
	}
	if neg {
		return "-" + s
	}
	return s
}

// trimSpec: how one token is wrapped.
type trimSpec struct {
	left, right bool
	mL, mR      text.WsMode
}

func (t trimSpec) String() string {
	s := ""
	if t.left {
		s += "L" + itoa(int(t.mL))
	}
	if t.right {
		s += "R" + itoa(int(t.mR))
	}
	if s == "" {
		return "-"
	}
	return s
}

// chooseTrim picks a wrapping: level 0: none or right only; 1: none, left, or
// both; 2: all 25.
func chooseTrim(tag string, level int) trimSpec {
	var t trimSpec
	switch level {
	case 0:
		k := rt.Choose(tag, 5)
		if k > 0 {
			t.right, t.mR = true, text.WsMode(k-1)
		}
	case 1:
		k := rt.Choose(tag, 21)
		switch {
		case k == 0:
		case k <= 4:
			t.left, t.mL = true, text.WsMode(k-1)
		default:
			k -= 5
			t.left, t.right = true, true
			t.mL, t.mR = text.WsMode(k/4), text.WsMode(k%4)
		}
	default:
		k := rt.Choose(tag, 25)
		switch {
		case k == 0:
		case k <= 4:
			t.left, t.mL = true, text.WsMode(k-1)
		case k <= 8:
			t.right, t.mR = true, text.WsMode(k-5)
		default:
			k -= 9
			t.left, t.right = true, true
			t.mL, t.mR = text.WsMode(k/4), text.WsMode(k%4)
		}
	}
	return t
}

func wrap(p parsley.Parser, t trimSpec) parsley.Parser {
	if t.left && t.right && rt.Param("leftoutside", 0) == 1 {
		// the other nesting of the two trims
		return text.LeftTrim(text.RightTrim(p, t.mR), t.mL)
	}
	if t.left {
		p = text.LeftTrim(p, t.mL)
	}
	if t.right {
		p = text.RightTrim(p, t.mR)
	}
	return p
}

func isWs(b byte) bool { return b == ' ' || b == '\t' || b == '\n' || b == '\f' }

// refSkip: the run at p judged by mode. errPos < 0: accepted.
// noClaim: the run contains a form feed and the mode depends on line breaks.
func refSkip(in []byte, p int, mode text.WsMode) (end int, msg string, errPos int, noClaim bool) {
	end = p
	firstNl := -1
	ff := false
	for end < len(in) && isWs(in[end]) {
		if in[end] == '\n' && firstNl < 0 {
			firstNl = end
		}
		if in[end] == '\f' {
			ff = true
		}
		end++
	}
	errPos = -1
	switch mode {
	case text.WsNone:
		if end > p {
			return end, "whitespaces are not allowed", p, false
		}
	case text.WsSpaces:
		if ff {
			return end, "", -1, true
		}
		if firstNl >= 0 {
			return end, "new line is not allowed", firstNl, false
		}
	case text.WsSpacesForceNl:
		if ff {
			return end, "", -1, true
		}
		if firstNl < 0 {
			return end, "was expecting a new line", end, false
		}
	}
	return end, "", -1, false
}

type refOut struct {
	claim  bool
	ok     bool
	msg    string
	errPos int
	starts []int
	ends   []int
}

// ref: sequential reading of the property. A right trim consumes the run
// after its token and judges it by its own mode; a following left trim then
// sees an empty run. The first violated trim decides the error. No claim when
// a token is absent where it is expected, or when input remains at the end.
func ref(in []byte, toks []byte, specs []trimSpec) refOut {
	var o refOut
	p := 0
	for i, tok := range toks {
		if specs[i].left {
			end, msg, ep, nc := refSkip(in, p, specs[i].mL)
			if nc {
				return o
			}
			if end >= len(in) || in[end] != tok {
				return o // token absent: no claim
			}
			if ep >= 0 {
				o.claim, o.msg, o.errPos = true, msg, ep
				return o
			}
			p = end
		}
		if p >= len(in) || in[p] != tok {
			return o
		}
		o.starts = append(o.starts, p)
		p++
		if specs[i].right {
			end, msg, ep, nc := refSkip(in, p, specs[i].mR)
			if nc {
				return o
			}
			if ep >= 0 {
				o.claim, o.msg, o.errPos = true, msg, ep
				return o
			}
			p = end
		}
		o.ends = append(o.ends, p)
	}
	if p != len(in) {
		return o
	}
	o.claim, o.ok = true, true
	return o
}

func lineCol(in []byte, q int) (int, int) {
	line, col := 1, 1
	for i := 0; i < q && i < len(in); i++ {
		if in[i] == '\n' {
			line++
			col = 1
		} else {
			col++
		}
	}
	return line, col
}

func show(in []byte) string {
	s := ""
	for _, c := range in {
		switch {
		case c == '\n':
			s += "\\n"
		case c == '\t':
			s += "\\t"
		case c == '\f':
			s += "\\f"
		case c >= 0x20 && c < 0x7f:
			s += string(rune(c))
		default:
			s += "?"
		}
	}
	return s
}

func gap(tag string, max int) []byte {
	if long := rt.Param("long", 0); long > 0 && tag == "gap" {
		// a long run of concrete whitespace (spaces, every seventh a tab) with
		// one symbolic byte in the middle
		g := make([]byte, long)
		for i := range g {
			g[i] = ' '
			if i%7 == 3 {
				g[i] = '\t'
			}
		}
		g[long/2] = rt.Byte("in")
		rt.Assume(g[long/2] != '\r')
		rt.Cover("long whitespace run")
		return g
	}
	n := rt.Choose(tag+".len", max+1)
	g := make([]byte, n)
	for i := range g {
		g[i] = rt.Byte("in")
		rt.Assume(g[i] != '\r')
	}
	return g
}

// C10_Modes: token sequences with whitespace in every gap, every assignment
// of modes (within the level), compared with the sequential reference.
func C10_Modes() {
	ntok := rt.Param("tokens", 2)
	toks := []byte{'a', 'b', 'c'}[:ntok]
	specs := make([]trimSpec, ntok)
	lvFirst, lvRest := rt.Param("level_first", 0), rt.Param("level_rest", 1)
	desc := ""
	for i := range specs {
		lv := lvRest
		if i == 0 {
			lv = lvFirst
		}
		specs[i] = chooseTrim("mode", lv)
		desc += specs[i].String() + " "
	}
	rt.Note(desc)
	var in []byte
	in = append(in, gap("lead", rt.Param("lead", 0))...)
	for i, tok := range toks {
		in = append(in, tok)
		if i+1 < len(toks) {
			in = append(in, gap("gap", rt.Param("gap", 2))...)
		}
	}
	in = append(in, gap("trail", rt.Param("trail", 1))...)

	want := ref(in, toks, specs)

	cp := make([]byte, len(in))
	copy(cp, in)
	f := text.NewFile("f", cp)
	fs := parsley.NewFileSet(f)
	rd := text.NewReader(f)
	ctx := parsley.NewContext(fs, rd)
	base := int(rd.Pos(0))
	elems := make([]parsley.Parser, ntok)
	for i, tok := range toks {
		elems[i] = wrap(terminal.Rune(rune(tok)), specs[i])
	}
	node, err := parsley.Parse(ctx, combinator.Sentence(combinator.SeqOf(elems...)))
	rt.ObsBool("accepted", err == nil)
	if (node == nil) == (err == nil) {
		rt.Fail("node-xor-error", desc+"on "+show(in))
		return
	}
	if err != nil {
		rt.ObsStr("error", err.Error())
	}
	if !want.claim {
		return
	}
	if want.ok {
		rt.Cover("accepted with whitespace")
		if err != nil {
			rt.Fail("rejects-permitted-whitespace", desc+"on "+show(in)+": "+err.Error())
			return
		}
		// Sentence = SeqOf(p, End): the sequence of tokens is its first child
		rootNode, ok := node.(parsley.NonTerminalNode)
		if !ok || len(rootNode.Children()) != 2 {
			rt.Fail("tree-shape", desc+"on "+show(in))
			return
		}
		seq, ok := rootNode.Children()[0].(parsley.NonTerminalNode)
		if !ok || len(seq.Children()) != ntok {
			rt.Fail("tree-shape", desc+"on "+show(in))
			return
		}
		for i, ch := range seq.Children() {
			if ch.Token() != string(rune(toks[i])) {
				rt.Fail("transparent/token", desc+"on "+show(in))
				return
			}
			v, _ := ch.(parsley.LiteralNode).Value().(rune)
			if v != rune(toks[i]) {
				rt.Fail("transparent/value", desc+"on "+show(in))
				return
			}
			if int(ch.Pos())-base != want.starts[i] {
				rt.Fail("transparent/start", desc+"on "+show(in)+": token "+itoa(i)+" starts at "+itoa(int(ch.Pos())-base)+", expected "+itoa(want.starts[i]))
				return
			}
			if int(ch.ReaderPos())-base != want.ends[i] {
				rt.Fail("transparent/end", desc+"on "+show(in)+": token "+itoa(i)+" ends at "+itoa(int(ch.ReaderPos())-base)+", expected "+itoa(want.ends[i]))
				return
			}
		}
		rt.Assert(true, "accepted-as-specified")
		return
	}
	// the reference says: whitespace error msg at errPos
	rt.Cover("whitespace error expected")
	if err == nil {
		rt.Fail("accepts-forbidden-whitespace", desc+"on "+show(in)+": expected "+want.msg+" at offset "+itoa(want.errPos))
		return
	}
	l, c := lineCol(in, want.errPos)
	wantText := "failed to parse the input: " + want.msg + " at f:" + itoa(l) + ":" + itoa(c)
	if err.Error() != wantText {
		rt.Fail("whitespace-error", desc+"on "+show(in)+": "+err.Error()+", expected "+wantText)
		return
	}
	rt.Assert(true, "rejected-as-specified")
}

// C10_TokenKinds: every kind of terminal node as the right-trimmed token: the
// literal (concrete) is followed by a run of 0..G symbolic bytes and a ')'.
// Alone it ends after the literal; right-trimmed it keeps start, token and
// value and ends after the whitespace run; in the composite modes likewise.
func C10_TokenKinds() {
	type kind struct {
		lit string
		p   parsley.Parser
	}
	kinds := []kind{
		{"12", terminal.Integer("i")},
		{"1.5", terminal.Float("f")},
		{`"s"`, terminal.String("s", true)},
		{"`s`", terminal.String("s", true)},
		{"'c'", terminal.Char("c")},
		{"true", terminal.Bool("b", "true", "false")},
		{"false", terminal.Bool("b", "true", "false")},
		{"5s", terminal.TimeDuration("d")},
		{"nil", terminal.Nil("n", "nil")},
		{"+", terminal.Op("+")},
		{"if", terminal.Word("w", "if", 1)},
		{"abc", terminal.Regexp("r", "ID", "identifier", `[a-z]+`, 0)},
		{"a", terminal.Rune('a')},
		// literals with multi-byte characters: positions are byte offsets
		{"\u2264", terminal.Op("\u2264")},
		{"\u00e9", terminal.Rune('\u00e9')},
		{"\"\u00e9\"", terminal.String("s", true)},
		{"'\u20ac'", terminal.Char("c")},
		{"\u00e9t\u00e9", terminal.Regexp("r", "ID", "identifier", `[a-z\x{e9}]+`, 0)},
	}
	k := kinds[rt.Choose("kind", len(kinds))]
	rt.Note(k.lit)
	in := []byte(k.lit)
	in = append(in, gap("run", rt.Param("G", 2))...)
	in = append(in, ')') // ends every kind of literal
	run := len(k.lit)
	for run < len(in)-1 && isWs(in[run]) {
		run++
	}
	if run < len(in)-1 {
		// the gap holds something else than whitespace: the literal may go on
		// (digits, letters, a dot): no claim
		for _, b := range in[len(k.lit) : len(in)-1] {
			if !isWs(b) {
				return
			}
		}
	}
	parseWith := func(p parsley.Parser) (parsley.Node, parsley.Error, int) {
		cp := make([]byte, len(in))
		copy(cp, in)
		f := text.NewFile("f", cp)
		rd := text.NewReader(f)
		ctx := parsley.NewContext(parsley.NewFileSet(f), rd)
		n, _, err := p.Parse(ctx, data.EmptyIntMap, rd.Pos(0))
		return n, err, int(rd.Pos(0))
	}
	plain, err, base := parseWith(k.p)
	if plain == nil || err != nil {
		rt.Fail("kinds/plain-literal-rejected", k.lit)
		return
	}
	rt.Assert(int(plain.ReaderPos())-base == len(k.lit), "kinds/plain-end")
	rt.Cover("literal token parsed")
	check := func(id string, p parsley.Parser, wantEnd int) {
		n, err, b := parseWith(p)
		if n == nil || err != nil {
			rt.Fail("kinds/"+id+"-rejected", k.lit+" followed by "+show(in[len(k.lit):]))
			return
		}
		rt.ObsInt(id+".end", int(n.ReaderPos())-b)
		rt.Assert(int(n.Pos())-b == 0, "kinds/"+id+"-start")
		rt.Assert(n.Token() == plain.Token(), "kinds/"+id+"-token")
		if int(n.ReaderPos())-b != wantEnd {
			rt.Fail("kinds/"+id+"-end", k.lit+" followed by "+show(in[len(k.lit):])+": ends at "+itoa(int(n.ReaderPos())-b)+", expected "+itoa(wantEnd))
			return
		}
		l1, ok1 := plain.(parsley.LiteralNode)
		l2, ok2 := n.(parsley.LiteralNode)
		if ok1 != ok2 || ok1 && l1.Value() != l2.Value() {
			rt.Fail("kinds/"+id+"-value", k.lit)
		}
	}
	check("rtrim", text.RightTrim(k.p, text.WsSpacesNl), run)
	check("trim", text.Trim(k.p), run)
	check("ltrim", text.LeftTrim(k.p, text.WsSpacesNl), len(k.lit))
	if run > len(k.lit) {
		rt.Cover("whitespace after the literal")
	}
}
