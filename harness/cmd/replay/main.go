// Command replay runs harnesses natively on recorded input vectors.
// stdin: {"harness": name, "params": {...}, "vectors": [[[name,val],...], ...]}
// stdout: one JSON outcome per vector, one per line.
package main

import (
	"encoding/json"
	"fmt"
	"os"
	"strconv"
	"strings"

	"vh/rt"

	_ "vh/gram"
	_ "vh/h15"
	_ "vh/hconc"
	_ "vh/hreloc"
	_ "vh/hjson"
	_ "vh/htree"
	_ "vh/harith"
	_ "vh/htrim"
	_ "vh/hlit"
	_ "vh/hpos"
	_ "vh/hrd"
	_ "vh/hself"
)

type request struct {
	Harness string             `json:"harness"`
	Params  map[string]int     `json:"params"`
	Vectors [][][2]interface{} `json:"vectors"`
}

// enumerate: replay -enum <harness> -alphabet <bytes> [-ints a,b,c] [-params k=v,...] [-max n]
func enumerate(args []string) {
	harness := args[0]
	alphabet := "ab"
	ints := []int64{0, 1, 2}
	params := map[string]int{}
	max := 0
	for i := 1; i+1 < len(args); i += 2 {
		switch args[i] {
		case "-alphabet":
			a, err := strconv.Unquote(`"` + args[i+1] + `"`)
			if err != nil {
				fmt.Fprintln(os.Stderr, "bad alphabet:", err)
				os.Exit(2)
			}
			alphabet = a
		case "-ints":
			ints = nil
			for _, x := range strings.Split(args[i+1], ",") {
				v, _ := strconv.ParseInt(x, 10, 64)
				ints = append(ints, v)
			}
		case "-params":
			for _, kv := range strings.Split(args[i+1], ",") {
				p := strings.SplitN(kv, "=", 2)
				if len(p) == 2 {
					v, _ := strconv.Atoi(p[1])
					params[p[0]] = v
				}
			}
		case "-max":
			max, _ = strconv.Atoi(args[i+1])
		}
	}
	f := rt.Lookup(harness)
	if f == nil {
		fmt.Fprintln(os.Stderr, "replay: unknown harness", harness)
		os.Exit(2)
	}
	counts := map[string]int{}
	shown := 0
	runs := rt.Enumerate(f, params, []byte(alphabet), ints, max, func(vec [][2]interface{}, out rt.Outcome) {
		counts[out.Result]++
		if (out.Result == "violation" || out.Result == "panic") && shown < 25 {
			shown++
			fmt.Printf("%s %s %s  vec=%v\n", out.Result, out.Assert, out.Detail, vec)
		}
	})
	fmt.Printf("enumerated %d runs: %v\n", runs, counts)
	if counts["violation"]+counts["panic"] > 0 {
		os.Exit(1)
	}
}

func main() {
	if len(os.Args) > 2 && os.Args[1] == "-enum" {
		enumerate(os.Args[2:])
		return
	}
	var req request
	dec := json.NewDecoder(os.Stdin)
	dec.UseNumber()
	if err := dec.Decode(&req); err != nil {
		fmt.Fprintln(os.Stderr, "replay: bad request:", err)
		os.Exit(2)
	}
	f := rt.Lookup(req.Harness)
	if f == nil {
		fmt.Fprintln(os.Stderr, "replay: unknown harness", req.Harness)
		os.Exit(2)
	}
	enc := json.NewEncoder(os.Stdout)
	for _, vec := range req.Vectors {
		for i := range vec {
			if n, ok := vec[i][1].(json.Number); ok {
				v, _ := n.Int64()
				vec[i][1] = v
			}
		}
		out := rt.Execute(f, vec, req.Params)
		enc.Encode(out)
	}
}
