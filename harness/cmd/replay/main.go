// Command replay runs harnesses natively on recorded input vectors.
// stdin: {"harness": name, "params": {...}, "vectors": [[[name,val],...], ...]}
// stdout: one JSON outcome per vector, one per line.
package main

import (
	"encoding/json"
	"fmt"
	"os"

	"vh/rt"

	_ "vh/gram"
	_ "vh/h15"
	_ "vh/htree"
	_ "vh/harith"
	_ "vh/htrim"
	_ "vh/hlit"
	_ "vh/hpos"
	_ "vh/hrd"
	_ "vh/hself"
)

type request struct {
	Harness string             `json:"harness"`
	Params  map[string]int     `json:"params"`
	Vectors [][][2]interface{} `json:"vectors"`
}

func main() {
	var req request
	dec := json.NewDecoder(os.Stdin)
	dec.UseNumber()
	if err := dec.Decode(&req); err != nil {
		fmt.Fprintln(os.Stderr, "replay: bad request:", err)
		os.Exit(2)
	}
	f := rt.Lookup(req.Harness)
	if f == nil {
		fmt.Fprintln(os.Stderr, "replay: unknown harness", req.Harness)
		os.Exit(2)
	}
	enc := json.NewEncoder(os.Stdout)
	for _, vec := range req.Vectors {
		for i := range vec {
			if n, ok := vec[i][1].(json.Number); ok {
				v, _ := n.Int64()
				vec[i][1] = v
			}
		}
		out := rt.Execute(f, vec, req.Params)
		enc.Encode(out)
	}
}
