// Package hself: tiny harnesses used to test the engine itself.
package hself

import (
	"bytes"
	"sort"
	"strings"

	"vh/rt"
)

func init() {
	rt.Register("Self_Bytes", Self_Bytes)
	rt.Register("Self_Ints", Self_Ints)
	rt.Register("Self_Sort", Self_Sort)
	rt.Register("Self_SortSlice", Self_SortSlice)
	rt.Register("Self_Strings", Self_Strings)
	rt.Register("Self_Twin", Self_Twin)
	rt.Register("Self_Overflow", Self_Overflow)
}

func classify(b byte) int {
	switch {
	case b >= '0' && b <= '9':
		return 1
	case b == 'a' || b == 'b':
		return 2
	}
	return 0
}

// Self_Bytes: 2 symbolic bytes, 3 classes each -> 9 paths.
func Self_Bytes() {
	a, b := rt.Byte("in"), rt.Byte("in")
	ca, cb := classify(a), classify(b)
	rt.ObsInt("ca", ca)
	rt.ObsInt("cb", cb)
	rt.Assert(ca*3+cb < 9, "range")
	if ca == 1 && cb == 2 {
		rt.Cover("digit-letter")
	}
}

// Self_Ints: solver-proved arithmetic facts.
func Self_Ints() {
	x, y := rt.Int("x"), rt.Int("y")
	rt.Assume(x > 0 && x < 1000 && y > 0 && y < 1000)
	rt.Assert(x+y > x, "no-overflow-small")
	rt.Assert((x+y)-y == x, "add-sub")
	if x > y {
		rt.ObsInt("max", x)
		rt.Assert(x-y > 0, "diff-positive")
	} else {
		rt.ObsInt("max", y)
	}
}

// Self_Sort: insertion into a sorted list with symbolic ints.
func Self_Sort() {
	n := rt.Choose("n", 4)
	var l []int
	for i := 0; i < n; i++ {
		v := rt.Int("v")
		j := 0
		for j < len(l) && l[j] < v {
			j++
		}
		l = append(l, 0)
		copy(l[j+1:], l[j:])
		l[j] = v
	}
	for i := 1; i < len(l); i++ {
		rt.Assert(l[i-1] <= l[i], "sorted")
	}
	rt.ObsInt("len", len(l))
}

// Self_SortSlice: the engine's model of sort.Slice / sort.SliceStable (they
// go through reflection natively): 3 symbolic values, 3! orders + ties.
func Self_SortSlice() {
	type kv struct{ k, seq int }
	l := []kv{{rt.Int("v"), 0}, {rt.Int("v"), 1}, {rt.Int("v"), 2}}
	sum := l[0].k ^ l[1].k ^ l[2].k
	if rt.Choose("stable", 2) == 1 {
		sort.SliceStable(l, func(i, j int) bool { return l[i].k < l[j].k })
		for i := 1; i < len(l); i++ {
			rt.Assert(l[i-1].k < l[i].k || l[i-1].k == l[i].k && l[i-1].seq < l[i].seq, "stable-order")
		}
	} else {
		sort.Slice(l, func(i, j int) bool { return l[i].k < l[j].k })
		for i := 1; i < len(l); i++ {
			rt.Assert(l[i-1].k <= l[i].k, "order")
		}
	}
	rt.Assert(l[0].k^l[1].k^l[2].k == sum, "same-elements")
	rt.Assert(l[0].seq+l[1].seq+l[2].seq == 3, "permutation")
	rt.ObsInt("first", l[0].k)
}

// Self_Strings: the engine's models of the assembly-backed byte searches
// (strings/bytes Index, IndexByte, Contains, Count, Equal) against hand loops.
func Self_Strings() {
	b := []byte{rt.Byte("in"), rt.Byte("in"), rt.Byte("in")}
	s := string(b)
	first := -1
	n := 0
	for i := range b {
		if b[i] == 'a' {
			n++
			if first < 0 {
				first = i
			}
		}
	}
	rt.Assert(strings.IndexByte(s, 'a') == first, "indexbyte-string")
	rt.Assert(bytes.IndexByte(b, 'a') == first, "indexbyte-bytes")
	rt.Assert(strings.Count(s, "a") == n, "count")
	ab := -1
	for i := 0; i+1 < len(b); i++ {
		if b[i] == 'a' && b[i+1] == 'b' {
			ab = i
			break
		}
	}
	rt.Assert(strings.Index(s, "ab") == ab, "index-string")
	rt.Assert(bytes.Index(b, []byte("ab")) == ab, "index-bytes")
	rt.Assert(strings.Contains(s, "ab") == (ab >= 0), "contains")
	rt.Assert(bytes.Equal(b, []byte("aab")) == (b[0] == 'a' && b[1] == 'a' && b[2] == 'b'), "equal")
	rt.ObsInt("first", first)
	rt.ObsInt("ab", ab)
}

// Self_Twin: a reachability twin — its final assertion is false, so the engine
// must report a violation and the native replay must reproduce it.
func Self_Twin() {
	a := rt.Byte("in")
	rt.Assume(a >= 'a' && a <= 'c')
	x := rt.Int("x")
	rt.Assume(x > 10 && x < 20)
	rt.ObsInt("x", x)
	rt.Assert(false, "twin")
}

// Self_Overflow: the solver must find the one wrapping case.
func Self_Overflow() {
	x := rt.Int("x")
	rt.Assume(x > 0)
	rt.Assert(x+1 > x, "no-wrap") // false exactly for MaxInt64
}
