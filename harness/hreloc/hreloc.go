// Package hreloc: harnesses for C12 (parsing is invariant under the file's
// placement in a file set). The same symbolic content is parsed twice: alone
// (base offset 1) and after a file of symbolic length (base offset L+2, one
// run covers every placement).
package hreloc

import (
	"github.com/opsidian/parsley/combinator"
	"github.com/opsidian/parsley/data"
	"github.com/opsidian/parsley/examples/json/json"
	"github.com/opsidian/parsley/parsley"
	"github.com/opsidian/parsley/text"
	"github.com/opsidian/parsley/text/terminal"

	"vh/harith"
	"vh/rt"
)

func init() {
	rt.Register("C12_Literals", C12_Literals)
	rt.Register("C12_Tokens", C12_Tokens)
	rt.Register("C12_Arith", C12_Arith)
	rt.Register("C12_JSON", C12_JSON)
}

const maxLen = 1 << 40

type fakeFile struct {
	length, offset int
}

type fakePos struct{}

func (fakePos) String() string                       { return "other:1:1" }
func (f *fakeFile) Position(int) parsley.Position   { return fakePos{} }
func (f *fakeFile) Pos(off int) parsley.Pos         { return parsley.Pos(f.offset + off) }
func (f *fakeFile) Len() int                        { return f.length }
func (f *fakeFile) SetOffset(o int)                 { f.offset = o }

type place struct {
	ctx  *parsley.Context
	rd   *text.Reader
	base int
}

// places builds the two placements of the same content.
func places(in []byte) (a, b *place) {
	readerFirst := rt.Choose("readerfirst", 2) == 1
	mk := func(before *fakeFile) *place {
		cp := make([]byte, len(in))
		copy(cp, in)
		f := text.NewFile("f", cp)
		var fs *parsley.FileSet
		var rd *text.Reader
		if before == nil {
			fs = parsley.NewFileSet(f)
			rd = text.NewReader(f)
		} else if readerFirst {
			// the reader exists before the file is given its place in the set
			rd = text.NewReader(f)
			fs = parsley.NewFileSet(before)
			fs.AddFile(f)
			rt.Cover("reader created before the file joined the set")
		} else {
			fs = parsley.NewFileSet(before, f)
			rd = text.NewReader(f)
		}
		return &place{ctx: parsley.NewContext(fs, rd), rd: rd, base: int(rd.Pos(0))}
	}
	a = mk(nil)
	b = mk(&fakeFile{length: rt.IntRange("otherlen", 0, maxLen)})
	return
}

func itoa(n int) string {
	if n == 0 {
		return "0"
	}
	neg := n < 0
	if neg {
		n = -n
	}
	s := ""
	for n > 0 {
		s = string(rune('0'+n%10)) + s
		n /= 10
	}
	if neg {
		return "-" + s
	}
	return s
}

// render: tokens and spans relative to the file's base offset.
func render(n parsley.Node, base int) string {
	if n == nil {
		return "nil"
	}
	s := n.Token() + "[" + itoa(int(n.Pos())-base) + "," + itoa(int(n.ReaderPos())-base) + "]"
	if nt, ok := n.(parsley.NonTerminalNode); ok {
		s += "{"
		for _, c := range nt.Children() {
			s += render(c, base) + " "
		}
		s += "}"
	}
	return s
}

// shifted: every position of tree b is the position in tree a plus delta.
func shifted(a, b parsley.Node, delta int) bool {
	if a == nil || b == nil {
		return a == nil && b == nil
	}
	if int(b.Pos())-int(a.Pos()) != delta || int(b.ReaderPos())-int(a.ReaderPos()) != delta {
		return false
	}
	na, oka := a.(parsley.NonTerminalNode)
	nb, okb := b.(parsley.NonTerminalNode)
	if oka != okb {
		return false
	}
	if oka {
		if len(na.Children()) != len(nb.Children()) {
			return false
		}
		for i := range na.Children() {
			if !shifted(na.Children()[i], nb.Children()[i], delta) {
				return false
			}
		}
	}
	return true
}

func sameValue(a, b interface{}) bool {
	switch x := a.(type) {
	case nil:
		return b == nil
	case []interface{}:
		y, ok := b.([]interface{})
		if !ok || len(x) != len(y) {
			return false
		}
		for i := range x {
			if !sameValue(x[i], y[i]) {
				return false
			}
		}
		return true
	case map[string]interface{}:
		y, ok := b.(map[string]interface{})
		if !ok || len(x) != len(y) {
			return false
		}
		for k, v := range x {
			w, present := y[k]
			if !present || !sameValue(v, w) {
				return false
			}
		}
		return true
	}
	return a == b
}

func errText(e error) string {
	if e == nil {
		return ""
	}
	return e.Error()
}

func show(in []byte) string {
	s := ""
	for _, c := range in {
		switch {
		case c == '\n':
			s += "\\n"
		case c >= 0x20 && c < 0x7f:
			s += string(rune(c))
		default:
			s += "?"
		}
	}
	return s
}

func freeInput(maxN int) []byte {
	n := rt.Choose("n", maxN+1)
	in := make([]byte, n)
	for i := range in {
		in[i] = rt.Byte("in")
		rt.Assume(in[i] != '\r')
	}
	return in
}

// compareRoot runs parsley.Parse and parsley.Evaluate with root at both placements.
func compareRoot(what string, in []byte, root parsley.Parser, evaluate bool) {
	a, b := places(in)
	delta := b.base - a.base
	na, ea := parsley.Parse(a.ctx, root)
	nb, eb := parsley.Parse(b.ctx, root)
	rt.ObsBool("accepted", ea == nil)
	rt.ObsStr("error", errText(ea))
	if (ea == nil) != (eb == nil) {
		rt.Fail(what+"/acceptance-depends-on-placement", show(in)+": alone "+errText(ea)+" / placed "+errText(eb))
		return
	}
	if errText(ea) != errText(eb) {
		rt.Fail(what+"/error-text-depends-on-placement", show(in)+": alone "+errText(ea)+" / placed "+errText(eb))
		return
	}
	if ea == nil {
		rt.Cover("accepted at both placements")
		ra, rb := render(na, a.base), render(nb, b.base)
		rt.ObsStr("tree", ra)
		if ra != rb {
			rt.Fail(what+"/tree-depends-on-placement", show(in)+": alone "+ra+" / placed "+rb)
			return
		}
		rt.Assert(shifted(na, nb, delta), what+"/positions-shifted-by-offset-difference")
	} else {
		rt.Cover("rejected at both placements")
	}
	if a.ctx.CallCount() != b.ctx.CallCount() {
		rt.Fail(what+"/call-count-depends-on-placement", show(in)+": "+itoa(a.ctx.CallCount())+" vs "+itoa(b.ctx.CallCount()))
		return
	}
	if !evaluate {
		return
	}
	a2, b2 := places(in)
	va, ea2 := parsley.Evaluate(a2.ctx, root)
	vb, eb2 := parsley.Evaluate(b2.ctx, root)
	if errText(ea2) != errText(eb2) {
		rt.Fail(what+"/evaluation-error-depends-on-placement", show(in)+": alone "+errText(ea2)+" / placed "+errText(eb2))
		return
	}
	if ea2 == nil && !sameValue(va, vb) {
		rt.Fail(what+"/value-depends-on-placement", show(in))
		return
	}
	if ea2 != nil && ea == nil {
		rt.Cover("evaluation error at both placements")
	}
}

// C12_Literals: every literal parser applied at every offset.
func C12_Literals() {
	in := freeInput(rt.Param("N", 3))
	c := rt.Choose("start", len(in)+1)
	var p parsley.Parser
	switch rt.Choose("terminal", 9) {
	case 8:
		// a capturing group selected: another branch of terminal.Regexp
		p = terminal.Regexp("r", "ID", "identifier", `([a-z]+)[0-9]*`, 1)
	case 0:
		p = terminal.Integer("i")
	case 1:
		p = terminal.Float("f")
	case 2:
		p = terminal.String("s", true)
	case 3:
		p = terminal.Char("c")
	case 4:
		p = terminal.Bool("b", "true", "no")
	case 5:
		p = terminal.TimeDuration("d")
	case 6:
		p = terminal.Word("w", "if", 1)
	case 7:
		p = terminal.Regexp("r", "ID", "identifier", `[a-z]+`, 0)
	}
	// the same literal inside whitespace trimming (errors raised inside a
	// literal are moved past following whitespace by RightTrim)
	switch rt.Choose("trim", 3) {
	case 1:
		p = text.RightTrim(p, text.WsSpacesNl)
	case 2:
		p = text.Trim(p)
	}
	a, b := places(in)
	delta := b.base - a.base
	na, _, ea := p.Parse(a.ctx, data.EmptyIntMap, parsley.Pos(a.base+c))
	nb, _, eb := p.Parse(b.ctx, data.EmptyIntMap, parsley.Pos(b.base+c))
	rt.ObsBool("matched", na != nil)
	if (na == nil) != (nb == nil) || (ea == nil) != (eb == nil) {
		rt.Fail("literal/outcome-depends-on-placement", show(in))
		return
	}
	if ea != nil {
		rt.Assert(int(eb.Pos())-int(ea.Pos()) == delta, "literal/error-position-shifted")
		if ea.Error() != eb.Error() {
			rt.Fail("literal/error-message-depends-on-placement", show(in))
		}
		rt.ObsInt("errpos", int(ea.Pos())-a.base)
		return
	}
	rt.Cover("literal matched at both placements")
	rt.ObsStr("node", render(na, a.base))
	if render(na, a.base) != render(nb, b.base) {
		rt.Fail("literal/node-depends-on-placement", show(in)+": "+render(na, a.base)+" / "+render(nb, b.base))
		return
	}
	rt.Assert(shifted(na, nb, delta), "literal/positions-shifted-by-offset-difference")
	va, vb := na.(parsley.LiteralNode).Value(), nb.(parsley.LiteralNode).Value()
	if va != vb {
		rt.Fail("literal/value-depends-on-placement", show(in))
	}
}

// C12_Tokens: two trimmed tokens (the C10 workload).
func C12_Tokens() {
	mR := text.WsMode(rt.Choose("mode", 4))
	mL := text.WsMode(rt.Choose("mode", 4))
	var in []byte
	in = append(in, 'a')
	g := rt.Choose("gap", rt.Param("gap", 2)+1)
	for i := 0; i < g; i++ {
		b := rt.Byte("in")
		rt.Assume(b != '\r')
		in = append(in, b)
	}
	in = append(in, 'b')
	t := rt.Choose("trail", rt.Param("trail", 1)+1)
	for i := 0; i < t; i++ {
		b := rt.Byte("in")
		rt.Assume(b != '\r')
		in = append(in, b)
	}
	var second parsley.Parser = text.LeftTrim(terminal.Rune('b'), mL)
	if rt.Choose("both", 2) == 1 {
		second = text.RightTrim(second, mR)
	}
	root := combinator.Sentence(combinator.SeqOf(text.RightTrim(terminal.Rune('a'), mR), second))
	if rt.Choose("inner", 2) == 1 {
		// a sequence inside RightTrim: an error raised inside it, at a position
		// followed by whitespace, is moved past that whitespace
		root = combinator.Sentence(text.RightTrim(combinator.SeqOf(terminal.Rune('a'), terminal.Rune('b')), mR))
	}
	compareRoot("tokens", in, root, false)
}

// C12_Arith: the left-recursive arithmetic grammar (Remaining(pos) inside
// curtailment must be offset-relative).
func C12_Arith() {
	in := freeInput(rt.Param("N", 3))
	compareRoot("arith", in, harith.NewParser(), true)
}

// C12_JSON: the JSON example on skeletons.
func C12_JSON() {
	hole := func() []byte {
		n := 1 + rt.Choose("hole", rt.Param("H", 1))
		h := make([]byte, n)
		for i := range h {
			h[i] = rt.Byte("in")
			rt.Assume(h[i] != '\r')
		}
		return h
	}
	var in []byte
	switch rt.Choose("skeleton", 3) {
	case 0:
		in = append(append(append(append([]byte("["), hole()...), ','), hole()...), ']')
	case 1:
		in = append(append([]byte(`{"k":`), hole()...), '}')
	case 2:
		in = append(append([]byte(`[`), hole()...), []byte("\n, 1.5]")...)
	}
	compareRoot("json", in, combinator.Sentence(text.Trim(json.NewParser())), true)
}
