// Package hjson: harnesses for C16 (the example JSON parser agrees with
// encoding/json on the supported subset).
//
// The deciding comparison under the engine is with a reference JSON evaluator
// written here (encoding/json is reflection-based and cannot be executed
// symbolically). Natively — that is for every solver model that is replayed —
// the same harness additionally runs the real encoding/json and requires the
// reference to agree with it wherever the reference makes a claim.
package hjson

import (
	"bytes"
	stdjson "encoding/json"
	"strconv"

	"github.com/opsidian/parsley/combinator"
	"github.com/opsidian/parsley/examples/json/json"
	"github.com/opsidian/parsley/parsley"
	"github.com/opsidian/parsley/text"

	"vh/rt"
)

func init() {
	rt.Register("C16_Free", C16_Free)
	rt.Register("C16_Skeleton", C16_Skeleton)
}

// status of the reference on a document
const (
	stValue   = iota // supported document with a value
	stReject         // not JSON because truncated / separator missing / trailing input
	stNoClaim        // outside the supported subset: only "no panic" is claimed
)

// floatLit marks a decimal literal; its value is strconv.ParseFloat of the lexeme.
type floatLit struct{ lexeme string }

type ref struct {
	in []byte
	p  int
	st int
}

func (r *ref) fail(st int) {
	if r.st == stValue {
		r.st = st
	}
}

func isDigit(b byte) bool { return b >= '0' && b <= '9' }
func isHex(b byte) bool {
	return b >= '0' && b <= '9' || b >= 'a' && b <= 'f' || b >= 'A' && b <= 'F'
}
func hexVal(b byte) int {
	switch {
	case b >= '0' && b <= '9':
		return int(b - '0')
	case b >= 'a' && b <= 'f':
		return int(b-'a') + 10
	}
	return int(b-'A') + 10
}

// ws skips whitespace; nl=false means only spaces and tabs are permitted by
// the grammar at this place (a line break there is accepted by encoding/json
// only: no claim). A form feed is whitespace for the parser only: no claim.
func (r *ref) ws(nl bool) {
	for r.p < len(r.in) {
		b := r.in[r.p]
		switch {
		case b == ' ' || b == '\t':
		case b == '\n':
			if !nl {
				r.fail(stNoClaim)
			}
		case b == '\f':
			r.fail(stNoClaim)
		default:
			return
		}
		r.p++
	}
}

func utf8Len(d []byte, i int) int {
	if i >= len(d) {
		return 0
	}
	b0 := d[i]
	cont := func(k int, lo, hi byte) bool { return i+k < len(d) && d[i+k] >= lo && d[i+k] <= hi }
	switch {
	case b0 < 0x80:
		return 1
	case b0 >= 0xC2 && b0 <= 0xDF:
		if cont(1, 0x80, 0xBF) {
			return 2
		}
	case b0 == 0xE0:
		if cont(1, 0xA0, 0xBF) && cont(2, 0x80, 0xBF) {
			return 3
		}
	case b0 >= 0xE1 && b0 <= 0xEC, b0 == 0xEE, b0 == 0xEF:
		if cont(1, 0x80, 0xBF) && cont(2, 0x80, 0xBF) {
			return 3
		}
	case b0 == 0xED:
		if cont(1, 0x80, 0x9F) && cont(2, 0x80, 0xBF) {
			return 3
		}
	case b0 == 0xF0:
		if cont(1, 0x90, 0xBF) && cont(2, 0x80, 0xBF) && cont(3, 0x80, 0xBF) {
			return 4
		}
	case b0 >= 0xF1 && b0 <= 0xF3:
		if cont(1, 0x80, 0xBF) && cont(2, 0x80, 0xBF) && cont(3, 0x80, 0xBF) {
			return 4
		}
	case b0 == 0xF4:
		if cont(1, 0x80, 0x8F) && cont(2, 0x80, 0xBF) && cont(3, 0x80, 0xBF) {
			return 4
		}
	}
	return 0
}

func appendRune(out []byte, ch int) []byte {
	switch {
	case ch < 0x80:
		return append(out, byte(ch))
	case ch < 0x800:
		return append(out, 0xC0|byte(ch>>6), 0x80|byte(ch)&0x3F)
	}
	return append(out, 0xE0|byte(ch>>12), 0x80|byte(ch>>6)&0x3F, 0x80|byte(ch)&0x3F)
}

// str parses a string literal at r.p (which holds '"').
func (r *ref) str() string {
	r.p++
	var out []byte
	for {
		if r.p >= len(r.in) {
			r.fail(stReject) // truncated
			return ""
		}
		b := r.in[r.p]
		switch {
		case b == '"':
			r.p++
			return string(out)
		case b == '\\':
			if r.p+1 >= len(r.in) {
				r.fail(stReject)
				return ""
			}
			e := r.in[r.p+1]
			switch e {
			case '"', '\\':
				out = append(out, e)
				r.p += 2
			case 'b':
				out = append(out, 8)
				r.p += 2
			case 'f':
				out = append(out, 12)
				r.p += 2
			case 'n':
				out = append(out, 10)
				r.p += 2
			case 'r':
				out = append(out, 13)
				r.p += 2
			case 't':
				out = append(out, 9)
				r.p += 2
			case 'u':
				if r.p+6 > len(r.in) {
					// truncated only if what is there is a prefix of hex digits
					for k := r.p + 2; k < len(r.in); k++ {
						if !isHex(r.in[k]) {
							r.fail(stNoClaim)
							return ""
						}
					}
					r.fail(stReject)
					return ""
				}
				v := 0
				for k := 0; k < 4; k++ {
					h := r.in[r.p+2+k]
					if !isHex(h) {
						r.fail(stNoClaim)
						return ""
					}
					v = v<<4 | hexVal(h)
				}
				if v >= 0xD800 && v <= 0xDFFF {
					r.fail(stNoClaim) // surrogates: pairs are encoding/json-only
					return ""
				}
				out = appendRune(out, v)
				r.p += 6
			default:
				r.fail(stNoClaim) // \/ , Go-only escapes, invalid escapes
				return ""
			}
		case b < 0x20 || b == 0x7f:
			// raw control characters: the parser accepts most, encoding/json none
			r.fail(stNoClaim)
			return ""
		case b < 0x80:
			out = append(out, b)
			r.p++
		default:
			w := utf8Len(r.in, r.p)
			if w == 0 {
				r.fail(stNoClaim)
				return ""
			}
			out = append(out, r.in[r.p:r.p+w]...)
			r.p += w
		}
	}
}

// number parses -?(0|[1-9]d*)(.d+([eE][+-]?d+)?)?
func (r *ref) number() interface{} {
	start := r.p
	if r.in[r.p] == '-' {
		r.p++
		if r.p >= len(r.in) {
			r.fail(stReject) // "-" alone: truncated
			return nil
		}
		if !isDigit(r.in[r.p]) {
			r.fail(stNoClaim)
			return nil
		}
	}
	ds := r.p
	for r.p < len(r.in) && isDigit(r.in[r.p]) {
		r.p++
	}
	if r.in[ds] == '0' && r.p > ds+1 {
		r.fail(stNoClaim) // leading zeros: octal for the parser, invalid JSON
		return nil
	}
	if r.p < len(r.in) && (r.in[r.p] == 'x' || r.in[r.p] == 'X' || r.in[r.p] == 'e' || r.in[r.p] == 'E') {
		r.fail(stNoClaim) // hex (parser only), exponent without fraction (encoding/json only)
		return nil
	}
	if r.p >= len(r.in) || r.in[r.p] != '.' {
		if r.p-ds > 19 {
			r.fail(stNoClaim) // beyond the int64 range
			return nil
		}
		if r.p-ds == 19 {
			// 19 digits: inside the int64 range or not (the magnitude fits uint64)
			var m uint64
			for _, d := range r.in[ds:r.p] {
				m = m*10 + uint64(d-'0')
			}
			if r.in[start] == '-' {
				if m > 1<<63 {
					r.fail(stNoClaim)
					return nil
				}
				return -int64(m)
			}
			if m > 1<<63-1 {
				r.fail(stNoClaim)
				return nil
			}
			return int64(m)
		}
		var v int64
		for _, d := range r.in[ds:r.p] {
			v = v*10 + int64(d-'0')
		}
		if r.in[start] == '-' {
			v = -v
		}
		return v
	}
	r.p++
	fs := r.p
	for r.p < len(r.in) && isDigit(r.in[r.p]) {
		r.p++
	}
	if r.p == fs {
		if r.p >= len(r.in) {
			r.fail(stReject) // "1." at end of input: truncated
		} else {
			r.fail(stNoClaim)
		}
		return nil
	}
	if r.p < len(r.in) && (r.in[r.p] == 'e' || r.in[r.p] == 'E') {
		k := r.p + 1
		if k < len(r.in) && (r.in[k] == '+' || r.in[k] == '-') {
			k++
		}
		m := k
		for k < len(r.in) && isDigit(r.in[k]) {
			k++
		}
		if k == m {
			// incomplete exponent: the parser stops before 'e' (trailing input),
			// encoding/json reports a syntax error; both reject only if it is
			// not merely truncated... keep it simple: no claim
			r.fail(stNoClaim)
			return nil
		}
		r.p = k
	}
	return floatLit{string(r.in[start:r.p])}
}

// trailingSeparator: a separator directly followed (after permitted
// whitespace) by the closing bracket: a value is missing, rejected by both.
func (r *ref) trailingSeparator(closing byte) bool {
	save := r.p
	r.ws(true)
	if r.st != stValue {
		return true
	}
	if r.p < len(r.in) && r.in[r.p] == closing {
		r.fail(stReject)
		return true
	}
	r.p = save
	return false
}

func (r *ref) word(w string) bool {
	if r.p+len(w) > len(r.in) {
		return false
	}
	for i := 0; i < len(w); i++ {
		if r.in[r.p+i] != w[i] {
			return false
		}
	}
	return true
}

func isWordByte(b byte) bool {
	return 'a' <= b && b <= 'z' || 'A' <= b && b <= 'Z' || '0' <= b && b <= '9' || b == '_'
}

// isPrefixOfWord: the rest of the input is a proper prefix of w (truncation).
func (r *ref) isPrefixOfWord(w string) bool {
	rest := r.in[r.p:]
	if len(rest) >= len(w) {
		return false
	}
	for i := range rest {
		if rest[i] != w[i] {
			return false
		}
	}
	return true
}

func (r *ref) value(depth int) interface{} {
	if r.st != stValue {
		return nil
	}
	if r.p >= len(r.in) {
		r.fail(stReject) // truncated: a value was expected
		return nil
	}
	if depth > 8 {
		r.fail(stNoClaim)
		return nil
	}
	b := r.in[r.p]
	switch {
	case b == '"':
		return r.str()
	case b == '-' || isDigit(b):
		return r.number()
	case b == '[':
		r.p++
		arr := []interface{}{}
		r.ws(true)
		if r.p < len(r.in) && r.in[r.p] == ']' {
			r.p++
			return arr
		}
		for {
			r.ws(true)
			v := r.value(depth + 1)
			if r.st != stValue {
				return nil
			}
			arr = append(arr, v)
			save := r.p
			r.ws(true)
			if r.p >= len(r.in) {
				r.fail(stReject) // truncated
				return nil
			}
			if r.in[r.p] == ']' {
				r.p++
				return arr
			}
			// a comma may only be preceded by spaces and tabs
			r.p = save
			r.ws(false)
			if r.st != stValue {
				return nil
			}
			if r.in[r.p] != ',' {
				r.fail(stReject) // separator missing
				return nil
			}
			r.p++
			if r.trailingSeparator(']') {
				return nil
			}
		}
	case b == '{':
		r.p++
		obj := map[string]interface{}{}
		r.ws(true)
		if r.p < len(r.in) && r.in[r.p] == '}' {
			r.p++
			return obj
		}
		for {
			r.ws(true)
			if r.p >= len(r.in) {
				r.fail(stReject)
				return nil
			}
			if r.in[r.p] != '"' {
				r.fail(stNoClaim) // a key must be a string: both reject, but not one of the claimed kinds
				return nil
			}
			k := r.str()
			if r.st != stValue {
				return nil
			}
			r.ws(false)
			if r.st != stValue {
				return nil
			}
			if r.p >= len(r.in) {
				r.fail(stReject)
				return nil
			}
			if r.in[r.p] != ':' {
				r.fail(stReject) // separator missing
				return nil
			}
			r.p++
			r.ws(true)
			v := r.value(depth + 1)
			if r.st != stValue {
				return nil
			}
			obj[k] = v // last key wins
			save := r.p
			r.ws(true)
			if r.p >= len(r.in) {
				r.fail(stReject)
				return nil
			}
			if r.in[r.p] == '}' {
				r.p++
				return obj
			}
			r.p = save
			r.ws(false)
			if r.st != stValue {
				return nil
			}
			if r.in[r.p] != ',' {
				r.fail(stReject)
				return nil
			}
			r.p++
			if r.trailingSeparator('}') {
				return nil
			}
		}
	}
	for _, w := range []string{"true", "false", "null"} {
		if r.word(w) {
			if r.p+len(w) < len(r.in) && isWordByte(r.in[r.p+len(w)]) {
				r.fail(stNoClaim)
				return nil
			}
			r.p += len(w)
			switch w {
			case "true":
				return true
			case "false":
				return false
			}
			return nil
		}
		if r.isPrefixOfWord(w) {
			r.fail(stReject) // truncated literal
			return nil
		}
	}
	r.fail(stNoClaim)
	return nil
}

// Reference evaluates a whole document.
func Reference(in []byte) (interface{}, int) {
	r := &ref{in: in}
	r.ws(true)
	if r.st != stValue {
		return nil, r.st
	}
	if r.p >= len(in) {
		return nil, stNoClaim // empty document: rejected by both, not one of the claimed kinds
	}
	v := r.value(0)
	if r.st != stValue {
		return nil, r.st
	}
	r.ws(true)
	if r.st != stValue {
		return nil, r.st
	}
	if r.p != len(in) {
		// trailing input; when it directly follows a number or literal the
		// boundary rules differ between the two parsers: claim only after
		// whitespace or a closing bracket / quote
		prev := in[r.p-1]
		if prev == ']' || prev == '}' || prev == '"' || prev == ' ' || prev == '\t' || prev == '\n' {
			return nil, stReject
		}
		return nil, stNoClaim
	}
	return v, stValue
}

// equal compares a reference value with what the parser evaluated.
func equal(want, got interface{}) bool {
	switch w := want.(type) {
	case nil:
		return got == nil
	case bool:
		g, ok := got.(bool)
		return ok && g == w
	case int64:
		g, ok := got.(int64)
		return ok && g == w
	case string:
		g, ok := got.(string)
		return ok && g == w
	case floatLit:
		g, ok := got.(float64)
		if !ok {
			return false
		}
		f, err := strconv.ParseFloat(w.lexeme, 64)
		return err == nil && f == g
	case []interface{}:
		g, ok := got.([]interface{})
		if !ok || len(g) != len(w) {
			return false
		}
		for i := range w {
			if !equal(w[i], g[i]) {
				return false
			}
		}
		return true
	case map[string]interface{}:
		g, ok := got.(map[string]interface{})
		if !ok || len(g) != len(w) {
			return false
		}
		for k, v := range w {
			gv, present := g[k]
			if !present || !equal(v, gv) {
				return false
			}
		}
		return true
	}
	return false
}

// sameParsed compares two values produced by the parser.
func sameParsed(a, b interface{}) bool {
	switch x := a.(type) {
	case []interface{}:
		y, ok := b.([]interface{})
		if !ok || len(x) != len(y) {
			return false
		}
		for i := range x {
			if !sameParsed(x[i], y[i]) {
				return false
			}
		}
		return true
	case map[string]interface{}:
		y, ok := b.(map[string]interface{})
		if !ok || len(x) != len(y) {
			return false
		}
		for k, v := range x {
			w, present := y[k]
			if !present || !sameParsed(v, w) {
				return false
			}
		}
		return true
	}
	return a == b
}

func hasFloatErr(v interface{}) bool {
	switch w := v.(type) {
	case floatLit:
		_, err := strconv.ParseFloat(w.lexeme, 64)
		return err != nil
	case []interface{}:
		for _, e := range w {
			if hasFloatErr(e) {
				return true
			}
		}
	case map[string]interface{}:
		for _, e := range w {
			if hasFloatErr(e) {
				return true
			}
		}
	}
	return false
}

func show(in []byte) string {
	s := ""
	for _, c := range in {
		switch {
		case c == '\n':
			s += "\\n"
		case c >= 0x20 && c < 0x7f:
			s += string(rune(c))
		default:
			s += "?"
		}
	}
	return s
}

// ---- the real encoding/json, natively only ----

func convertStd(v interface{}) (interface{}, bool) {
	switch x := v.(type) {
	case stdjson.Number:
		s := string(x)
		isFloat := false
		for i := 0; i < len(s); i++ {
			if s[i] == '.' || s[i] == 'e' || s[i] == 'E' {
				isFloat = true
			}
		}
		if isFloat {
			return floatLit{s}, true
		}
		n, err := strconv.ParseInt(s, 10, 64)
		if err != nil {
			return nil, false
		}
		return n, true
	case []interface{}:
		out := []interface{}{}
		for _, e := range x {
			c, ok := convertStd(e)
			if !ok {
				return nil, false
			}
			out = append(out, c)
		}
		return out, true
	case map[string]interface{}:
		out := map[string]interface{}{}
		for k, e := range x {
			c, ok := convertStd(e)
			if !ok {
				return nil, false
			}
			out[k] = c
		}
		return out, true
	}
	return v, true
}

func equalRef(a, b interface{}) bool {
	switch x := a.(type) {
	case floatLit:
		y, ok := b.(floatLit)
		if !ok {
			return false
		}
		f1, e1 := strconv.ParseFloat(x.lexeme, 64)
		f2, e2 := strconv.ParseFloat(y.lexeme, 64)
		return e1 == nil && e2 == nil && f1 == f2
	case []interface{}:
		y, ok := b.([]interface{})
		if !ok || len(x) != len(y) {
			return false
		}
		for i := range x {
			if !equalRef(x[i], y[i]) {
				return false
			}
		}
		return true
	case map[string]interface{}:
		y, ok := b.(map[string]interface{})
		if !ok || len(x) != len(y) {
			return false
		}
		for k, v := range x {
			w, present := y[k]
			if !present || !equalRef(v, w) {
				return false
			}
		}
		return true
	}
	return a == b
}

// stdDecode runs encoding/json with UseNumber and a trailing-input check.
func stdDecode(in []byte) (interface{}, bool) {
	dec := stdjson.NewDecoder(bytes.NewReader(in))
	dec.UseNumber()
	var v interface{}
	if err := dec.Decode(&v); err != nil {
		return nil, false
	}
	var extra interface{}
	if err := dec.Decode(&extra); err == nil || err.Error() != "EOF" {
		return nil, false
	}
	c, ok := convertStd(v)
	if !ok {
		return nil, false
	}
	return c, true
}

// Check compares the example parser with the reference (and, natively, the
// reference with the real encoding/json).
func Check(in []byte) {
	want, st := Reference(in)
	if !rt.Symbolic() {
		sv, sok := stdDecode(in)
		switch st {
		case stValue:
			if !sok || !equalRef(want, sv) {
				rt.Fail("oracle/reference-differs-from-encoding-json", show(in))
				return
			}
		case stReject:
			if sok {
				rt.Fail("oracle/reference-rejects-what-encoding-json-accepts", show(in))
				return
			}
		}
	}
	cp := make([]byte, len(in))
	copy(cp, in)
	f := text.NewFile("f", cp)
	ctx := parsley.NewContext(parsley.NewFileSet(f), text.NewReader(f))
	rd := text.NewReader(f)
	ctx = parsley.NewContext(parsley.NewFileSet(f), rd)
	v, err := parsley.Evaluate(ctx, combinator.Sentence(text.Trim(json.NewParser())))
	// evaluating the same file again (fresh context, same reader) gives the same answer
	v2, err2 := parsley.Evaluate(parsley.NewContext(parsley.NewFileSet(f), rd), combinator.Sentence(text.Trim(json.NewParser())))
	if (err == nil) != (err2 == nil) || (err != nil && err.Error() != err2.Error()) || (err == nil && !sameParsed(v, v2)) {
		rt.Fail("second-evaluation-differs", show(in))
		return
	}
	rt.ObsBool("accepted", err == nil)
	rt.ObsInt("status", st)
	switch st {
	case stNoClaim:
		return
	case stReject:
		rt.Cover("claimed rejection")
		if err == nil {
			rt.Fail("accepts-truncated-or-unseparated-document", show(in))
		}
		return
	}
	if hasFloatErr(want) {
		return // decimals beyond the float64 range: no claim
	}
	rt.Cover("supported document")
	if err != nil {
		rt.Fail("rejects-supported-document", show(in)+": "+err.Error())
		return
	}
	if !equal(want, v) {
		rt.Fail("value-differs", show(in))
		return
	}
	switch want.(type) {
	case []interface{}:
		rt.Cover("array value")
	case map[string]interface{}:
		rt.Cover("object value")
	}
	rt.Assert(true, "agrees")
}

// C16_Free: every byte string of length <= N (CR excluded).
func C16_Free() {
	n := rt.Choose("n", rt.Param("N", 3)+1)
	in := make([]byte, n)
	for i := range in {
		in[i] = rt.Byte("in")
		rt.Assume(in[i] != '\r')
	}
	Check(in)
}

func hole(max int) []byte {
	n := rt.Choose("hole", max) + 1
	h := make([]byte, n)
	for i := range h {
		h[i] = rt.Byte("in")
		rt.Assume(h[i] != '\r')
	}
	return h
}

func cat(parts ...[]byte) []byte {
	var out []byte
	for _, p := range parts {
		out = append(out, p...)
	}
	return out
}

// C16_Skeleton: fixed JSON skeletons with symbolic holes, and every proper
// prefix of them (truncations).
func C16_Skeleton() {
	h1 := rt.Param("H1", 2) // hole size in single-hole skeletons
	h2 := rt.Param("H2", 1) // hole size in two-hole skeletons
	s := func(x string) []byte { return []byte(x) }
	var in []byte
	switch rt.Choose("skeleton", 9) {
	case 8:
		// a top-level scalar between two free bytes (leading / trailing
		// whitespace, or anything else)
		words := []string{"true", "false", "null", "1", `"s"`, "1.5", "-9223372036854775808", "9223372036854775807"}
		w := words[rt.Choose("scalar", len(words))]
		in = cat(hole(1), s(w), hole(1))
		if rt.Choose("bare", 2) == 1 {
			in = cat(s(w), hole(1))
		}
	case 7:
		// a decimal with symbolic digits and three free bytes after the
		// fraction (exponent marker, exponent sign, digit, or anything else)
		dg := func() []byte {
			b := rt.Byte("in")
			rt.Assume(isDigit(b))
			return []byte{b}
		}
		fr := func() []byte {
			b := rt.Byte("in")
			rt.Assume(b != '\r')
			return []byte{b}
		}
		in = cat(s("["), dg(), s("."), dg(), fr(), fr(), fr(), s("]"))
	case 0:
		in = cat(s("["), hole(h2), s(","), hole(h2), s("]"))
	case 1:
		in = cat(s(`{"`), hole(h2), s(`":`), hole(h2), s("}"))
	case 2:
		in = cat(s(`{"k":`), hole(h1), s(`,"k":1}`))
	case 3:
		in = cat(s("[["), hole(h2), s("],"), hole(h2), s("]"))
	case 4:
		in = cat(s(`"`), hole(rt.Param("S", 3)), s(`"`))
	case 5:
		in = cat(s("["), hole(h1), s("]"))
	case 6:
		in = cat(s(`{"a"`), hole(h2), s(`1`), hole(h2), s(`"b":null}`))
	}
	if rt.Choose("truncate", 2) == 1 {
		in = in[:rt.Choose("cut", len(in))]
		rt.Cover("truncated skeleton")
	}
	Check(in)
}
