// Package hconc: C14 on the workloads that reach the regexp cache, the
// literal parsers, trims and the file's lazily built line table (arithmetic
// grammar and the JSON example).
package hconc

import (
	"sync"

	"github.com/opsidian/parsley/combinator"
	"github.com/opsidian/parsley/examples/json/json"
	"github.com/opsidian/parsley/parsley"
	"github.com/opsidian/parsley/text"
	"github.com/opsidian/parsley/text/terminal"

	"vh/harith"
	"vh/rt"
)

func init() {
	rt.Register("C14_Arith", C14_Arith)
	rt.Register("C14_JSON", C14_JSON)
	rt.Register("C14_Trims", C14_Trims)
	rt.Register("C14_RegexpGroup", C14_RegexpGroup)
}

func outcome(v interface{}, err error) string {
	if err != nil {
		return "error: " + err.Error()
	}
	switch x := v.(type) {
	case int64:
		if x == 0 {
			return "int 0"
		}
		return "int"
	case nil:
		return "nil"
	case string:
		return "string " + x
	case bool:
		if x {
			return "true"
		}
		return "false"
	case []interface{}:
		return "array"
	case map[string]interface{}:
		return "object"
	}
	return "value"
}

func evalOnce(root parsley.Parser, in []byte) (interface{}, error) {
	cp := make([]byte, len(in))
	copy(cp, in)
	f := text.NewFile("f", cp)
	ctx := parsley.NewContext(parsley.NewFileSet(f), text.NewReader(f))
	return parsley.Evaluate(ctx, root)
}

// Shared: under the engine, no plain store into anything that existed before
// the evaluation began; natively 8 goroutines evaluate the same input on the
// shared graph FIRST (so that lazily filled shared state, if any, is filled
// concurrently), then once alone, and every concurrent result must equal the
// sequential one.
func Shared(root parsley.Parser, in []byte) {
	sharedWith(func() (string, bool) {
		v, err := evalOnce(root, in)
		return outcome(v, err), err != nil
	})
}

// SharedParse: the same with parsley.Parse (grammars without interpreters).
func SharedParse(root parsley.Parser, in []byte) {
	sharedWith(func() (string, bool) {
		cp := make([]byte, len(in))
		copy(cp, in)
		f := text.NewFile("f", cp)
		ctx := parsley.NewContext(parsley.NewFileSet(f), text.NewReader(f))
		_, err := parsley.Parse(ctx, root)
		if err != nil {
			msg := err.Error()
			for _, w := range []string{"whitespaces are not allowed", "new line is not allowed", "was expecting a new line"} {
				if contains(msg, w) {
					rt.Cover("whitespace error")
				}
			}
			return "error: " + msg, true
		}
		return "accepted", false
	})
}

func contains(s, sub string) bool {
	for i := 0; i+len(sub) <= len(s); i++ {
		if s[i:i+len(sub)] == sub {
			return true
		}
	}
	return false
}

func sharedWith(once func() (string, bool)) {
	if rt.Symbolic() {
		rt.Epoch()
		o, failed := once()
		rt.ObsStr("outcome", o)
		if failed {
			rt.Cover("failing input")
		} else {
			rt.Cover("successful input")
		}
		rt.Assert(rt.ForeignStores() == 0, "no-store-into-shared-state")
		return
	}
	var wg sync.WaitGroup
	got := make([][]string, 8)
	for k := 0; k < 8; k++ {
		wg.Add(1)
		go func(k int) {
			defer wg.Done()
			for rep := 0; rep < 100; rep++ {
				o, _ := once()
				got[k] = append(got[k], o)
			}
		}(k)
	}
	wg.Wait()
	want, _ := once()
	rt.ObsStr("outcome", want)
	for _, g := range got {
		for _, o := range g {
			if o != want {
				rt.Fail("concurrent-result-differs", "alone "+want+", concurrently "+o)
			}
		}
	}
}

// C14_Trims: two tokens trimmed in every pair of whitespace modes (the modes
// other than spaces-and-newlines raise whitespace errors, a path of its own
// through parsley.Parse and RightTrim).
func C14_Trims() {
	mR := text.WsMode(rt.Choose("mode", 4))
	mL := text.WsMode(rt.Choose("mode", 4))
	in := []byte{'a'}
	g := rt.Choose("gap", rt.Param("gap", 2)+1)
	for i := 0; i < g; i++ {
		b := rt.Byte("in")
		rt.Assume(b != '\r')
		in = append(in, b)
	}
	in = append(in, 'b')
	root := combinator.Sentence(combinator.SeqOf(
		text.RightTrim(terminal.Rune('a'), mR),
		text.RightTrim(text.LeftTrim(terminal.Rune('b'), mL), mR)))
	SharedParse(root, in)
}

// C14_RegexpGroup: a Regexp terminal with a capturing group selected (a branch
// of its own in terminal.Regexp), repeated and trimmed.
func C14_RegexpGroup() {
	root := combinator.Sentence(combinator.Many(text.Trim(terminal.Regexp("r", "ID", "identifier", `([a-z]+)[0-9]*`, 1))))
	SharedParse(root, freeInput(rt.Param("N", 3)))
}

func freeInput(maxN int) []byte {
	n := rt.Choose("n", maxN+1)
	in := make([]byte, n)
	for i := range in {
		in[i] = rt.Byte("in")
		rt.Assume(in[i] != '\r')
	}
	return in
}

// C14_Arith: the arithmetic grammar (Integer regexp, trims, Memoize, Choice,
// interpreter errors rendered through File.Position).
func C14_Arith() {
	Shared(harith.NewParser(), freeInput(rt.Param("N", 3)))
}

// C14_JSON: the JSON example (String/Float/Integer/Bool/Nil terminals, SepBy, named Choice).
func C14_JSON() {
	root := combinator.Sentence(text.Trim(json.NewParser()))
	var in []byte
	shape := rt.Choose("shape", 3)
	if shape == 0 {
		in = freeInput(rt.Param("N", 3))
	} else if shape == 2 {
		// a string literal whose two content bytes are free: escapes (\\t),
		// multi-byte runes (C3 A9), invalid bytes
		a, b := rt.Byte("in"), rt.Byte("in")
		rt.Assume(a != '\r' && b != '\r')
		in = []byte{'[', '"', a, b, '"', ']'}
		if a == '\\' {
			rt.Cover("string literal with an escape")
		}
	} else {
		h := func() []byte {
			b := rt.Byte("in")
			rt.Assume(b != '\r')
			return []byte{b}
		}
		in = append(append(append(append([]byte(`{"k":`), h()...), []byte(`,"l":[`)...), h()...), []byte("]}")...)
	}
	Shared(root, in)
}
