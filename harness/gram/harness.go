package gram

import (
	"github.com/opsidian/parsley/combinator"
	"github.com/opsidian/parsley/data"
	"github.com/opsidian/parsley/parsley"
	"github.com/opsidian/parsley/text"

	"vh/rt"
)

func init() {
	rt.Register("C01_Derivations", C01_Derivations)
	rt.Register("C02_BoundedReentry", C02_BoundedReentry)
	rt.Register("C04_NodeXorError", C04_NodeXorError)
	rt.Register("C01_LongInputs", C01_LongInputs)
}

// pickGrammar selects a grammar of the family (concrete fork).
func pickGrammar(filter func(g *Grammar) bool) *Grammar {
	if k := rt.Param("systematic", 0); k > 0 {
		Unstratified = rt.Param("unstratified", 0) == 1
		// the generated part of the family: k grammars sampled from the seed
		return Systematic(rt.Param("seed", 0), rt.Choose("grammar", k))
	}
	all := Curated()
	if rt.Param("trimshapes", 0) == 1 {
		all = TrimShapes()
	}
	if rt.Param("trimshapes", 0) == 2 {
		all = TrimFree()
	}
	var sel []*Grammar
	for _, g := range all {
		if filter == nil || filter(g) {
			sel = append(sel, g)
		}
	}
	only := rt.Param("grammar", -1)
	if only >= 0 {
		return sel[only%len(sel)]
	}
	i := rt.Choose("grammar", len(sel))
	return sel[i]
}

// input returns n <= N symbolic bytes (all 256 values except CR, which
// text.NewFile would fold into CRLF handling; CRLF is covered by C09/C11).
func input(maxN int) []byte { return inputFor(nil, maxN) }

func inputFor(g *Grammar, maxN int) []byte {
	if g != nil && g.MaxN > 0 && maxN > g.MaxN {
		maxN = g.MaxN
	}
	n := rt.Choose("n", maxN+1)
	in := make([]byte, n)
	for i := range in {
		in[i] = rt.Byte("in")
		rt.Assume(in[i] != '\r')
	}
	return in
}

type env struct {
	file *text.File
	fs   *parsley.FileSet
	rd   *text.Reader
	ctx  *parsley.Context
	base int
}

// otherFile is a file of arbitrary (symbolic) length placed before the parsed one.
type otherFile struct{ length, offset int }
type otherPos struct{}

func (otherPos) String() string                    { return "other:1:1" }
func (f *otherFile) Position(int) parsley.Position { return otherPos{} }
func (f *otherFile) Pos(off int) parsley.Pos       { return parsley.Pos(f.offset + off) }
func (f *otherFile) Len() int                      { return f.length }
func (f *otherFile) SetOffset(o int)               { f.offset = o }

// other, when set, is placed before the parsed file in every file set built
// by newEnv. usePlacement decides it at the start of a harness run: the file
// alone (base offset 1), or after a file of symbolic length (symbolic base
// offset). Harnesses that do not call it always parse the file alone.
var other *otherFile

func usePlacement() {
	other = nil
	if rt.Param("placed", 0) == 1 && rt.Choose("placement", 2) == 1 {
		other = &otherFile{length: rt.IntRange("otherlen", 0, 1<<40)}
		rt.Cover("parsed file at a symbolic base offset")
	}
}

func newEnv(in []byte) *env {
	cp := make([]byte, len(in))
	copy(cp, in)
	f := text.NewFile("f", cp)
	var fs *parsley.FileSet
	if other != nil {
		fs = parsley.NewFileSet(&otherFile{length: other.length}, f)
	} else {
		fs = parsley.NewFileSet(f)
	}
	rd := text.NewReader(f)
	e := &env{file: f, fs: fs, rd: rd, ctx: parsley.NewContext(fs, rd)}
	e.base = int(rd.Pos(0))
	return e
}

func contains(l []string, s string) bool {
	for _, x := range l {
		if x == s {
			return true
		}
	}
	return false
}

func showInput(in []byte) string {
	s := ""
	for _, c := range in {
		if c >= 0x20 && c < 0x7f {
			s += string(rune(c))
		} else {
			s += "?"
		}
	}
	return s
}

// C01_Derivations: the alternatives a memoized nonterminal returns at a
// position are exactly the grammar's derivations from that position.
func C01_Derivations() {
	usePlacement()
	g := pickGrammar(nil)
	in := inputFor(g, rt.Param("N", 3))
	rt.Note(g.Name)
	start := 0
	if len(in) > 0 && rt.Param("starts", 1) > 1 {
		start = rt.Choose("start", 2)
	}
	e := newEnv(in)
	bt := Build(g, nil)
	node, _, perr := bt.Root.Parse(e.ctx, data.EmptyIntMap, e.rd.Pos(start))
	alts := Alternatives(node)
	ref := NewRef(g, in, g.Finite)
	want := ref.At(0, start)

	rt.ObsInt("alts", len(alts))
	rt.ObsInt("want", len(want))
	if len(alts) > 1 {
		rt.Cover("more than one alternative returned")
	}
	if len(want) == 0 {
		rt.Cover("no derivation")
	}
	// soundness: every returned tree is a derivation with contiguous spans
	var gotTrees []string
	var gotEnds []int
	for _, alt := range alts {
		if alt == nil {
			rt.Fail("sound/nil-alternative", g.Name)
			return
		}
		if !SpansOK(alt, in, e.base) {
			rt.Fail("sound/spans", g.Name+" returned "+Render(alt, e.base)+" on "+showInput(in))
			return
		}
		if int(alt.Pos())-e.base != start {
			rt.Fail("sound/start", g.Name+" returned "+Render(alt, e.base))
			return
		}
		end := int(alt.ReaderPos()) - e.base
		tr := Render(alt, e.base)
		if len(gotTrees) < 6 {
			rt.ObsStr("alt", tr)
		}
		okEnd, okTree := false, false
		for _, w := range want {
			if w.End == end {
				okEnd = true
				if !g.Finite || w.Tree == tr {
					okTree = true
				}
			}
		}
		if !okEnd {
			rt.Fail("sound/end", g.Name+" returned end "+itoa(end)+" ("+tr+") which the grammar does not derive from "+showInput(in))
			return
		}
		if !okTree {
			rt.Fail("sound/tree", g.Name+" returned "+tr+" which is not a derivation of "+showInput(in))
			return
		}
		gotTrees = append(gotTrees, tr)
		gotEnds = append(gotEnds, end)
	}
	// completeness: every reachable end, and every distinct tree when finite
	for _, w := range want {
		found := false
		for _, ge := range gotEnds {
			if ge == w.End {
				found = true
			}
		}
		if !found {
			rt.Fail("complete/end", g.Name+" does not return end "+itoa(w.End)+" on "+showInput(in))
			return
		}
		if g.Finite && !contains(gotTrees, w.Tree) {
			rt.Fail("complete/tree", g.Name+" does not return "+w.Tree+" on "+showInput(in))
			return
		}
	}
	// a parser that returns nothing reports an error or a curtailment, never both results and error
	if node != nil && perr != nil {
		rt.Fail("node-and-error", g.Name)
	}
}

// ---- C02 ----

type actKey struct{ id, pos int }

type activity struct {
	active  map[actKey]int
	maxSeen int
	end     int // global position of the end of the parsed file, computed by the harness
	rd      *text.Reader
	limit   int // extra slack over Remaining(pos)
	failed  string
}

type actProbe struct {
	inner parsley.Parser
	id    int
	st    *activity
	slack int
}

func (p *actProbe) Parse(ctx *parsley.Context, lrc data.IntMap, pos parsley.Pos) (parsley.Node, data.IntSet, parsley.Error) {
	k := actKey{p.id, int(pos)}
	p.st.active[k]++
	n := p.st.active[k]
	if n > p.st.maxSeen {
		p.st.maxSeen = n
	}
	remaining := p.st.end - int(pos) // the harness's own count, not the reader's
	if n > remaining+p.slack {
		// fail immediately: this is the invariant that bounds recursion depth
		rt.Fail("reentry-bound", "a memoized parser is active "+itoa(n)+" times at one position with "+itoa(remaining)+" bytes remaining")
	}
	node, cp, err := p.inner.Parse(ctx, lrc, pos)
	p.st.active[k]--
	return node, cp, err
}

// C02_BoundedReentry: no memoized parser is active more than remaining+2
// times at one position; parsing terminates.
func C02_BoundedReentry() {
	usePlacement()
	g := pickGrammar(func(g *Grammar) bool { return g.Recursive })
	in := inputFor(g, rt.Param("N", 3))
	rt.Note(g.Name)
	e := newEnv(in)
	st := &activity{active: map[actKey]int{}, rd: e.rd, end: e.base + len(in)}
	w := &Wrap{
		Rule: func(i int, p parsley.Parser) parsley.Parser {
			return &actProbe{inner: p, id: i, st: st, slack: 2}
		},
		NT: func(i int, p parsley.Parser) parsley.Parser {
			return &actProbe{inner: p, id: 100 + i, st: st, slack: 3}
		},
	}
	bt := Build(g, w)
	bt.Root.Parse(e.ctx, data.EmptyIntMap, e.rd.Pos(0))
	rt.ObsInt("max-active", st.maxSeen)
	if st.maxSeen > 1 {
		rt.Cover("a parser was re-entered at the same position")
	}
	// the same through the public entry point with a Sentence root
	e2 := newEnv(in)
	st.active = map[actKey]int{}
	st.rd = e2.rd
	st.end = e2.base + len(in)
	parsley.Parse(e2.ctx, combinator.Sentence(bt.Root))
	rt.ObsInt("calls", e2.ctx.CallCount())
}

// ---- C04 ----

type evalAll struct{}

func (evalAll) Eval(userCtx interface{}, node parsley.NonTerminalNode) (interface{}, parsley.Error) {
	n := 0
	for _, c := range node.Children() {
		v, err := parsley.EvaluateNode(userCtx, c)
		if err != nil {
			return nil, err
		}
		if i, ok := v.(int); ok {
			n += i
		} else {
			n++
		}
	}
	return n, nil
}

// C04_NodeXorError: Parse returns exactly one of node / error; Evaluate never
// panics; with a Sentence root success means the whole input.
func C04_NodeXorError() {
	usePlacement()
	g := pickGrammar(nil)
	in := inputFor(g, rt.Param("N", 3))
	named := rt.Choose("named", 2) == 1
	rt.Note(g.Name)
	ref := NewRef(g, in, false)
	whole := false
	for _, w := range ref.At(0, 0) {
		if w.End == len(in) {
			whole = true
		}
	}
	// plain root
	{
		e := newEnv(in)
		bt := Build(g, &Wrap{Name: named})
		node, err := parsley.Parse(e.ctx, bt.Root)
		rt.ObsBool("plain-ok", err == nil)
		if (node == nil) == (err == nil) {
			rt.Fail("parse/node-xor-error", g.Name+" on "+showInput(in)+": node and error are both "+nilness(node == nil))
			return
		}
		if err == nil && len(ref.At(0, 0)) == 0 {
			rt.Fail("parse/accepts-underivable", g.Name+" on "+showInput(in))
			return
		}
		if err != nil && len(ref.At(0, 0)) > 0 {
			rt.Fail("parse/rejects-derivable", g.Name+" on "+showInput(in))
			return
		}
	}
	// Sentence root + Evaluate
	{
		e := newEnv(in)
		bt := Build(g, &Wrap{Name: named})
		root := combinator.Sentence(bt.Root)
		node, err := parsley.Parse(e.ctx, root)
		rt.ObsBool("sentence-ok", err == nil)
		if (node == nil) == (err == nil) {
			rt.Fail("sentence/node-xor-error", g.Name+" on "+showInput(in)+": node and error are both "+nilness(node == nil))
			return
		}
		if (err == nil) != whole {
			rt.Fail("sentence/whole-input", g.Name+" on "+showInput(in)+": accepted="+nilness(err != nil)+" but a full derivation exists="+nilness(!whole))
			return
		}
		if err == nil {
			rt.Cover("sentence accepted")
			if int(node.Pos())-e.base != 0 || int(node.ReaderPos())-e.base != len(in) {
				rt.Fail("sentence/span", g.Name+" on "+showInput(in)+": root spans "+span(int(node.Pos())-e.base, int(node.ReaderPos())-e.base))
				return
			}
		} else {
			rt.Cover("sentence rejected")
			rt.ObsStr("error", err.Error())
		}
	}
	// Evaluate with an interpreter on every non-terminal
	{
		e := newEnv(in)
		bt := Build(g, &Wrap{Name: named, Node: bindAll})
		root := combinator.Sentence(bt.Root)
		v, err := parsley.Evaluate(e.ctx, root)
		if (v == nil) == (err == nil) {
			rt.Fail("evaluate/value-xor-error", g.Name+" on "+showInput(in))
			return
		}
		if err == nil && !whole {
			rt.Fail("evaluate/whole-input", g.Name+" on "+showInput(in))
		}
	}
}

func nilness(isNil bool) string {
	if isNil {
		return "nil"
	}
	return "non-nil"
}

// bindAll binds an interpreter to every sequence-family parser.
func bindAll(e *G, p parsley.Parser) parsley.Parser {
	if s, ok := p.(*combinator.Sequence); ok {
		return s.Bind(evalAll{})
	}
	return p
}

// C01_LongInputs: left-recursive rules on inputs long enough that a rule is
// re-entered more than a hundred times at one position. The expected set of
// ends has a closed form for these three grammars; the first byte and the last
// two are symbolic, the rest is the concrete repetition.
func C01_LongInputs() {
	l := rt.Param("L", 120)
	var g *Grammar
	unit := 1 // bytes per repetition
	switch rt.Choose("grammar", 3) {
	case 0:
		g = &Grammar{Name: "P->Pb|a", Rules: []*G{A(S(N(0), T('b')), T('a'))}}
	case 1:
		g = &Grammar{Name: "A->Bb|a;B->A", Rules: []*G{A(S(N(1), T('b')), T('a')), N(0)}}
	default:
		g = &Grammar{Name: "E->ExT|T;T->a", Rules: []*G{A(S(N(0), T('x'), N(1)), N(1)), T('a')}}
		unit = 2
		l = 2 * l
	}
	in := make([]byte, 0, l)
	in = append(in, rt.Byte("in"))
	for len(in) < l-2 {
		if unit == 1 || len(in)%2 == 1 {
			in = append(in, "bx"[unit-1])
		} else {
			in = append(in, 'a')
		}
	}
	in = append(in, rt.Byte("in"), rt.Byte("in"))
	rt.Note(g.Name)
	e := newEnv(in)
	bt := Build(g, nil)
	node, _, _ := bt.Root.Parse(e.ctx, data.EmptyIntMap, e.rd.Pos(0))
	// closed form: a, then as many whole repetitions as are there
	var want []int
	if in[0] == 'a' {
		want = append(want, 1)
		for p := 1; p+unit <= len(in); p += unit {
			if unit == 1 && in[p] != 'b' {
				break
			}
			if unit == 2 && (in[p] != 'x' || in[p+1] != 'a') {
				break
			}
			want = append(want, p+unit)
		}
	}
	got := map[int]bool{}
	for _, alt := range Alternatives(node) {
		if !SpansOK(alt, in, e.base) {
			rt.Fail("long/spans", g.Name)
			return
		}
		end := int(alt.ReaderPos()) - e.base
		ok := false
		for _, w := range want {
			if w == end {
				ok = true
			}
		}
		if !ok {
			rt.Fail("long/sound-end", g.Name+" returned end "+itoa(end))
			return
		}
		got[end] = true
	}
	rt.ObsInt("ends", len(got))
	for _, w := range want {
		if !got[w] {
			rt.Fail("long/complete-end", g.Name+" on an input of "+itoa(len(in))+" bytes does not return end "+itoa(w))
			return
		}
	}
	if len(want) > 100 {
		rt.Cover("more than a hundred re-entries at one position")
	}
	rt.Assert(true, "long")
}
