package gram

import (
	"sync"

	"github.com/opsidian/parsley/combinator"
	"github.com/opsidian/parsley/parsley"
	"github.com/opsidian/parsley/text/terminal"

	"vh/rt"
)

func init() {
	rt.Register("C14_ParseWrites", C14_ParseWrites)
	rt.Register("C14_BuildWrites", C14_BuildWrites)
	rt.Register("C17_Poly", C17_Poly)
	rt.Register("C17_PolyLong", C17_PolyLong)
}

func outcome(v interface{}, err error) string {
	if err != nil {
		return "error: " + err.Error()
	}
	switch x := v.(type) {
	case int:
		return "int " + itoa(x)
	case rune:
		return "rune " + string(x)
	case nil:
		return "nil"
	}
	return "value"
}

// C14_ParseWrites: a parse performs no plain store into anything that existed
// before it started (parser graph, package-level variables). With no such
// store two parses with their own context/reader/file cannot race, whatever
// the interleaving. Natively the same input is parsed from 8 goroutines on
// one shared graph (built with -race when a violation is replayed).
func C14_ParseWrites() {
	g := pickGrammar(nil)
	in := inputFor(g, rt.Param("N", 3))
	named := rt.Choose("named", 2) == 1
	rt.Note(g.Name)
	bt := Build(g, &Wrap{Name: named, NameSeq: named, Node: bindAll})
	root := combinator.Sentence(bt.Root)
	if rt.Symbolic() {
		rt.Epoch()
		e := newEnv(in)
		v, err := parsley.Evaluate(e.ctx, root)
		rt.ObsStr("outcome", outcome(v, err))
		if err != nil {
			rt.Cover("failing parse")
		} else {
			rt.Cover("successful parse")
		}
		rt.Assert(rt.ForeignStores() == 0, "no-store-into-shared-state")
		return
	}
	// natively: the concurrent phase comes first, so that any lazily filled
	// shared state would be filled concurrently; then the sequential reference
	var wg sync.WaitGroup
	got := make([][]string, 8)
	for k := 0; k < 8; k++ {
		wg.Add(1)
		go func(k int) {
			defer wg.Done()
			for rep := 0; rep < 200; rep++ {
				e := newEnv(in)
				v, err := parsley.Evaluate(e.ctx, root)
				got[k] = append(got[k], outcome(v, err))
			}
		}(k)
	}
	wg.Wait()
	e := newEnv(in)
	v, err := parsley.Evaluate(e.ctx, root)
	want := outcome(v, err)
	rt.ObsStr("outcome", want)
	for _, g := range got {
		for _, o := range g {
			if o != want {
				rt.Fail("concurrent-result-differs", g0name(g)+showInput(in)+": alone "+want+", concurrently "+o)
			}
		}
	}
}

func g0name(_ []string) string { return "" }

// C14_BuildWrites: constructing a grammar performs no plain store into
// pre-existing state either (the parser index counter is atomic).
func C14_BuildWrites() {
	g := pickGrammar(nil)
	rt.Note(g.Name)
	if rt.Symbolic() {
		Build(g, &Wrap{Name: true, Node: bindAll})
		rt.Epoch()
		Build(g, &Wrap{Name: true, Node: bindAll})
		rt.Assert(rt.ForeignStores() == 0, "no-store-into-shared-state-at-construction")
		// the only shared cell construction touches is the parser index counter:
		// each Memoize must take its index in ONE atomic step (a separate
		// increment and read can interleave with another constructor)
		n0 := rt.AtomicOps()
		combinator.Memoize(terminal.Rune('a'))
		rt.Assert(rt.AtomicOps()-n0 == 1, "memoize-takes-its-index-in-one-atomic-step")
		return
	}
	// natively: parsers built concurrently must behave independently. 8
	// goroutines build memoized single-letter parsers; all of them are then
	// alternatives of one Any, and every letter must be found.
	const per = 300
	var wg sync.WaitGroup
	built := make([][]parsley.Parser, 8)
	for k := 0; k < 8; k++ {
		wg.Add(1)
		go func(k int) {
			defer wg.Done()
			for rep := 0; rep < per; rep++ {
				Build(g, &Wrap{Name: true, Node: bindAll})
				built[k] = append(built[k], combinator.Memoize(terminal.Rune(rune('a'+k))))
			}
		}(k)
	}
	wg.Wait()
	for rep := 0; rep < per; rep++ {
		alts := make([]parsley.Parser, 8)
		for k := range alts {
			alts[k] = built[k][rep]
		}
		root := combinator.Sentence(combinator.Any(alts...))
		for k := 0; k < 8; k++ {
			e := newEnv([]byte{byte('a' + k)})
			if _, err := parsley.Parse(e.ctx, root); err != nil {
				rt.Fail("memoize-takes-its-index-in-one-atomic-step", "parsers constructed concurrently share a result-cache slot: "+err.Error())
				return
			}
		}
	}
}

// ---- C17 ----

// polyFamilies are the unambiguous families of the property.
func polyFamilies() []*Grammar {
	return uniq([]*Grammar{
		{Name: "P->Pb|a", Rules: []*G{A(S(N(0), b), a)}},
		{Name: "E->ExT|T;T->TbF|F;F->a", Rules: []*G{A(S(N(0), x, N(1)), N(1)), A(S(N(1), b, N(2)), N(2)), a}},
		{Name: "A->Bx|a;B->Ab|b", Rules: []*G{A(S(N(1), x), a), A(S(N(0), b), b)}},
		{Name: "P->x?Pb|a", Rules: []*G{A(S(O(x), N(0), b), a)}},
		{Name: "P->aPb|eps", Rules: []*G{A(S(a, N(0), b), E())}},
		{Name: "sepby(a,x)", Rules: []*G{SB(a, x)}},
		{Name: "P->aP|a", Rules: []*G{A(S(a, N(0)), a)}},
		// five stacked left-recursive precedence levels with parentheses; the
		// inputs range over parentheses and atoms only
		{Name: "L0->L0xL1|L1;L1->L1bL2|L2;L2->L2cL3|L3;L3->L3dL4|L4;L4->a|(L0)",
			Rules: []*G{
				A(S(N(0), x, N(1)), N(1)),
				A(S(N(1), b, N(2)), N(2)),
				A(S(N(2), T('c'), N(3)), N(3)),
				A(S(N(3), T('d'), N(4)), N(4)),
				A(a, S(T('('), N(0), T(')'))),
			}, InAlpha: []byte{'(', ')', 'a'}},
	})
}

func callsOn(g *Grammar, in []byte) (int, string) {
	e := newEnv(in)
	bt := Build(g, nil)
	node, err := parsley.Parse(e.ctx, combinator.Sentence(bt.Root))
	res := "error"
	if err == nil {
		res = Render(node, e.base)
	}
	return e.ctx.CallCount(), res
}

// longWord is a word of length about n that the k-th family accepts (its last
// byte is then replaced by a symbolic one).
func longWord(k, n int) []byte {
	var w []byte
	rep := func(s string, times int) {
		for i := 0; i < times; i++ {
			w = append(w, s...)
		}
	}
	switch k {
	case 0: // P->Pb|a
		w = append(w, 'a')
		rep("b", n-1)
	case 1: // E->ExT|T;T->TbF|F;F->a
		w = append(w, 'a')
		for i := 0; len(w)+2 <= n; i++ {
			w = append(w, "xbb"[i%3], 'a')
		}
	case 2: // A->Bx|a;B->Ab|b
		w = append(w, 'a')
		rep("bx", (n-1)/2)
	case 3: // P->x?Pb|a: without x the hidden left recursion is all there is.
		// (With x the grammar is ambiguous: x^i a b^j has C(j,i) trees, and the
		// property is about unambiguous grammars.)
		w = append(w, 'a')
		rep("b", n-1)
	case 4: // P->aPb|eps
		rep("a", n/2)
		rep("b", n/2)
	case 5: // sepby(a,x)
		w = append(w, 'a')
		rep("xa", (n-1)/2)
	case 6: // P->aP|a
		rep("a", n)
	default: // five precedence levels with parentheses
		for len(w)+6 <= n {
			w = append(w, "(a)xa"...)
			w = append(w, "xbcd"[len(w)%4])
		}
		w = append(w, 'a')
	}
	return w
}

// C17_PolyLong: the doubling clause on inputs of several hundred bytes: the
// family's long word and its first half, last byte of each symbolic.
func C17_PolyLong() {
	fams := polyFamilies()
	k := rt.Choose("grammar", len(fams))
	g := fams[k]
	rt.Note(g.Name)
	n := rt.Param("L", 64)
	in := longWord(k, n)
	n = len(in)
	alpha := g.Alphabet()
	if g.InAlpha != nil {
		alpha = g.InAlpha
	}
	sym := func(at int) {
		in[at] = rt.Byte("in")
		ok := false
		for _, c := range alpha {
			if in[at] == c {
				ok = true
			}
		}
		rt.Assume(ok)
	}
	sym(n - 1)
	sym(n/2 - 1)
	full, res := callsOn(g, in)
	small, _ := callsOn(g, in[:n/2])
	rt.ObsInt("n", n)
	rt.ObsInt("calls-2n", full)
	rt.ObsInt("calls-n", small)
	if res != "error" {
		rt.Cover("accepted long word")
	}
	if full > 16*small {
		rt.Fail("long/doubling", g.Name+": "+itoa(small)+" calls for the first "+itoa(n/2)+" bytes, "+itoa(full)+" for all "+itoa(n))
		return
	}
	bound := rt.Param("C", 1) * len(g.Rules) * (n + 1) * (n + 1) * (n + 1) * (n + 1)
	if full > bound {
		rt.Fail("long/polynomial-bound", g.Name+": "+itoa(full)+" calls for "+itoa(n)+" bytes")
		return
	}
	again, res2 := callsOn(g, in)
	if again != full || res2 != res {
		rt.Fail("long/deterministic-count", g.Name+": "+itoa(full)+" vs "+itoa(again)+" calls")
		return
	}
	rt.Assert(true, "long/polynomial")
}

// callsOnTwo: two contexts created first, then parsed one after the other:
// the count of a parse is the count of that parse, whatever else is alive.
func callsOnTwo(g *Grammar, in []byte) (int, int) {
	e1, e2 := newEnv(in), newEnv(in)
	bt := Build(g, nil)
	root := combinator.Sentence(bt.Root)
	parsley.Parse(e1.ctx, root)
	// a third context over the first one's reader and file set, used next
	ctx3 := parsley.NewContext(e1.fs, e1.rd)
	parsley.Parse(ctx3, root)
	parsley.Parse(e2.ctx, root)
	if ctx3.CallCount() != e1.ctx.CallCount() {
		return e1.ctx.CallCount(), ctx3.CallCount()
	}
	return e1.ctx.CallCount(), e2.ctx.CallCount()
}

// C17_Poly: parser invocations stay within a degree-4 polynomial of the input
// length, doubling the input multiplies them by at most 16, and the count is
// the same on every run (all map iteration orders).
func C17_Poly() {
	fams := polyFamilies()
	g := fams[rt.Choose("grammar", len(fams))]
	rt.Note(g.Name)
	half := 1 + rt.Choose("half", rt.Param("H", 3))
	n := 2 * half
	alpha := g.Alphabet()
	if g.InAlpha != nil {
		alpha = g.InAlpha
	}
	in := make([]byte, n)
	for i := range in {
		in[i] = rt.Byte("in")
		ok := false
		for _, c := range alpha {
			if in[i] == c {
				ok = true
			}
		}
		rt.Assume(ok)
	}
	rt.PermuteMaps(true)
	full, res := callsOn(g, in)
	rt.PermuteMaps(false)
	small, _ := callsOn(g, in[:half])
	rt.ObsInt("n", n)
	rt.ObsInt("calls-2n", full)
	rt.ObsInt("calls-n", small)
	if res != "error" {
		rt.Cover("accepted word")
	}
	// degree-4 bound with the family constant = number of nonterminals
	bound := rt.Param("C", 1) * len(g.Rules) * (n + 1) * (n + 1) * (n + 1) * (n + 1)
	if full > bound {
		rt.Fail("polynomial-bound", g.Name+" on "+showInput(in)+": "+itoa(full)+" calls for "+itoa(n)+" bytes")
		return
	}
	if half >= rt.Param("minhalf", 2) && full > 16*small {
		rt.Fail("doubling", g.Name+" on "+showInput(in)+": "+itoa(small)+" calls for the first "+itoa(half)+" bytes, "+itoa(full)+" for all "+itoa(n))
		return
	}
	// determinism: another run, other map orders
	rt.PermuteMaps(true)
	again, res2 := callsOn(g, in)
	if again != full || res2 != res {
		rt.Fail("deterministic-count", g.Name+" on "+showInput(in)+": "+itoa(full)+" vs "+itoa(again)+" calls")
		return
	}
	rt.PermuteMaps(false)
	if c1, c2 := callsOnTwo(g, in); c1 != full || c2 != full {
		rt.Fail("deterministic-count-two-contexts", g.Name+" on "+showInput(in)+": "+itoa(full)+" calls alone, "+itoa(c1)+" and "+itoa(c2)+" with two contexts alive")
		return
	}
	rt.Assert(true, "polynomial")
}
