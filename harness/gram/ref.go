package gram

// Reference semantics R(g, i): the set of (end, tree) a grammar expression
// derives from position i of the word w, computed as a least fixpoint over the
// table (nonterminal, position). "First match" for Choice, "longest path only"
// for the sequence family (a result exists only where the next element fails),
// exactly as DESIGN.md section 3.2 states them.

// Res is one derivation: end position and rendered tree ("" when trees are not tracked).
type Res struct {
	End  int
	Tree string
}

type Ref struct {
	G     *Grammar
	W     []byte
	Trees bool
	tab   [][][]Res // [nt][pos] -> results
}

func addRes(l []Res, r Res) []Res {
	for _, e := range l {
		if e.End == r.End && e.Tree == r.Tree {
			return l
		}
	}
	return append(l, r)
}

func sameRes(a, b []Res) bool {
	if len(a) != len(b) {
		return false
	}
	for _, x := range a {
		found := false
		for _, y := range b {
			if x.End == y.End && x.Tree == y.Tree {
				found = true
				break
			}
		}
		if !found {
			return false
		}
	}
	return true
}

// NewRef computes the fixpoint for word w.
func NewRef(g *Grammar, w []byte, trees bool) *Ref {
	r := &Ref{G: g, W: w, Trees: trees}
	n := len(w)
	r.tab = make([][][]Res, len(g.Rules))
	for i := range r.tab {
		r.tab[i] = make([][]Res, n+1)
	}
	for iter := 0; iter < 64; iter++ {
		next := make([][][]Res, len(g.Rules))
		changed := false
		for i, rule := range g.Rules {
			next[i] = make([][]Res, n+1)
			for pos := 0; pos <= n; pos++ {
				next[i][pos] = r.eval(rule, pos)
				if !sameRes(next[i][pos], r.tab[i][pos]) {
					changed = true
				}
			}
		}
		r.tab = next
		if !changed {
			return r
		}
	}
	return r
}

// At returns the derivations of nonterminal nt from pos.
func (r *Ref) At(nt, pos int) []Res { return r.tab[nt][pos] }

func (r *Ref) tree(s string) string {
	if r.Trees {
		return s
	}
	return ""
}

func (r *Ref) eval(e *G, i int) []Res {
	switch e.K {
	case KTerm:
		if i < len(r.W) && r.W[i] == e.Ch {
			return []Res{{i + 1, r.tree("T(" + string(rune(e.Ch)) + ")" + span(i, i+1))}}
		}
		return nil
	case KEmpty:
		return []Res{{i, r.tree("E" + span(i, i))}}
	case KNT:
		return r.tab[e.NT][i]
	case KSuppress:
		return r.eval(e.Kids[0], i)
	case KOpt:
		out := append([]Res{}, r.eval(e.Kids[0], i)...)
		return addRes(out, Res{i, r.tree("E" + span(i, i))})
	case KAny:
		var out []Res
		for _, k := range e.Kids {
			for _, x := range r.eval(k, i) {
				out = addRes(out, x)
			}
		}
		return out
	case KChoice:
		for _, k := range e.Kids {
			if x := r.eval(k, i); len(x) > 0 {
				return x
			}
		}
		return nil
	}
	// sequence family
	var lookup func(d int) *G
	var lenCheck func(d int) bool
	token := "SEQ"
	l := len(e.Kids)
	switch e.K {
	case KSeq:
		lookup = func(d int) *G {
			if d < l {
				return e.Kids[d]
			}
			return nil
		}
		lenCheck = func(d int) bool { return d == l }
	case KSeqTry:
		lookup = func(d int) *G {
			if d < l {
				return e.Kids[d]
			}
			return nil
		}
		lenCheck = func(d int) bool { return d > 0 && d <= l }
	case KSeqFirstOrAll:
		lookup = func(d int) *G {
			if d < l {
				return e.Kids[d]
			}
			return nil
		}
		lenCheck = func(d int) bool { return d == 1 || d == l }
	case KMany, KMany1:
		token = "MANY"
		lookup = func(d int) *G { return e.Kids[0] }
		lenCheck = func(d int) bool { return e.K == KMany || d > 0 }
	case KSepBy, KSepBy1:
		token = "SEP_BY"
		lookup = func(d int) *G { return e.Kids[d%2] }
		lenCheck = func(d int) bool { return (d == 0 && e.K == KSepBy) || d%2 == 1 }
	}
	var out []Res
	var rec func(d int, pos int, start int, kids string)
	rec = func(d int, pos int, start int, kids string) {
		var next []Res
		if nx := lookup(d); nx != nil && d <= len(r.W)+len(e.Kids)+2 {
			next = r.eval(nx, pos)
		}
		if len(next) == 0 {
			if lenCheck(d) {
				t := ""
				if r.Trees {
					if d == 0 {
						t = "N(" + token + ")" + span(i, i) + "{}"
					} else {
						t = "N(" + token + ")" + span(start, pos) + "{" + kids + "}"
					}
				}
				out = addRes(out, Res{pos, t})
			}
			return
		}
		for _, x := range next {
			k := kids
			if r.Trees {
				if d > 0 {
					k += " "
				}
				k += x.Tree
			}
			st := start
			if d == 0 {
				st = firstPos(x.Tree, i)
			}
			rec(d+1, x.End, st, k)
		}
	}
	rec(0, i, i, "")
	return out
}

// firstPos extracts the start position from a rendered tree ("...[p,rp]...").
func firstPos(tree string, def int) int {
	for k := 0; k < len(tree); k++ {
		if tree[k] == '[' {
			n := 0
			k++
			for k < len(tree) && tree[k] >= '0' && tree[k] <= '9' {
				n = n*10 + int(tree[k]-'0')
				k++
			}
			return n
		}
	}
	return def
}
