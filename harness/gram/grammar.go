// Package gram: the bounded grammar family F, its construction with the real
// combinators, its reference semantics R and the harnesses built on them
// (C01, C02, C03, C04, C06, C07, C14, C17).
package gram

import (
	"github.com/opsidian/parsley/ast"
	"github.com/opsidian/parsley/combinator"
	"github.com/opsidian/parsley/data"
	"github.com/opsidian/parsley/parser"
	"github.com/opsidian/parsley/parsley"
	"github.com/opsidian/parsley/text"
	"github.com/opsidian/parsley/text/terminal"
)

type Kind int

const (
	KTerm Kind = iota
	KEmpty
	KSeq
	KAny
	KChoice
	KOpt
	KMany
	KMany1
	KSepBy
	KSepBy1
	KSeqTry
	KSeqFirstOrAll
	KNT
	KRTrim    // text.RightTrim(kid, WsSpaces): only in the C07 sharing shapes
	KSuppress // combinator.SuppressError(kid)
	KSingle   // combinator.Single(kid): only in the C07 sharing shapes
	KLTrim    // text.LeftTrim(kid, mode): only in the C02 trim shapes
)

// G is a grammar expression.
type G struct {
	K    Kind
	Ch   byte
	Kids []*G
	NT   int
	Mode text.WsMode // KRTrim / KLTrim
}

// Grammar is a set of rules; rule 0 is the root nonterminal.
type Grammar struct {
	Name      string
	Rules     []*G
	Finite    bool // finitely many distinct trees per input
	LRFree    bool // no left recursion (C03)
	Recursive bool
	InAlpha   []byte // when set: the input alphabet used by C17 (instead of all terminals)
	MaxN      int    // 0: no limit; otherwise inputs longer than this are outside the claim (result sets explode)
}

func T(c byte) *G    { return &G{K: KTerm, Ch: c} }
func E() *G          { return &G{K: KEmpty} }
func S(k ...*G) *G   { return &G{K: KSeq, Kids: k} }
func A(k ...*G) *G   { return &G{K: KAny, Kids: k} }
func C(k ...*G) *G   { return &G{K: KChoice, Kids: k} }
func O(g *G) *G      { return &G{K: KOpt, Kids: []*G{g}} }
func M(g *G) *G      { return &G{K: KMany, Kids: []*G{g}} }
func M1(g *G) *G     { return &G{K: KMany1, Kids: []*G{g}} }
func SB(v, s *G) *G  { return &G{K: KSepBy, Kids: []*G{v, s}} }
func SB1(v, s *G) *G { return &G{K: KSepBy1, Kids: []*G{v, s}} }
func ST(k ...*G) *G  { return &G{K: KSeqTry, Kids: k} }
func SF(a, b *G) *G  { return &G{K: KSeqFirstOrAll, Kids: []*G{a, b}} }
func N(i int) *G     { return &G{K: KNT, NT: i} }
func RT(g *G) *G     { return &G{K: KRTrim, Kids: []*G{g}, Mode: text.WsSpaces} }

// RTm / LTm: RightTrim / LeftTrim with an explicit whitespace mode.
func RTm(g *G, m text.WsMode) *G { return &G{K: KRTrim, Kids: []*G{g}, Mode: m} }
func LTm(g *G, m text.WsMode) *G { return &G{K: KLTrim, Kids: []*G{g}, Mode: m} }
func SUP(g *G) *G                { return &G{K: KSuppress, Kids: []*G{g}} }
func SG(g *G) *G                 { return &G{K: KSingle, Kids: []*G{g}} }

var (
	a  = T('a')
	b  = T('b')
	x  = T('x')
	nl = T('\n')
)

// Curated is the hand-picked part of the family: every shape the properties name.
func Curated() []*Grammar {
	return uniq([]*Grammar{
		{Name: "P->Pb|a", Rules: []*G{A(S(N(0), b), a)}, Finite: true, Recursive: true},
		{Name: "P->aP|a", Rules: []*G{A(S(a, N(0)), a)}, Finite: true, LRFree: true, Recursive: true},
		{Name: "P->aPb|eps", Rules: []*G{A(S(a, N(0), b), E())}, Finite: true, LRFree: true, Recursive: true},
		{Name: "S->SS|a", Rules: []*G{A(S(N(0), N(0)), a)}, Finite: true, Recursive: true},
		{Name: "E->ExE|a", Rules: []*G{A(S(N(0), x, N(0)), a)}, Finite: true, Recursive: true},
		{Name: "A->Bb|a;B->Ax|A", Rules: []*G{A(S(N(1), b), a), A(S(N(0), x), N(0))}, Finite: true, Recursive: true},
		{Name: "P->x?Pb|a", Rules: []*G{A(S(O(x), N(0), b), a)}, Finite: true, Recursive: true},
		{Name: "P->epsPb|a", Rules: []*G{A(S(E(), N(0), b), a)}, Finite: true, Recursive: true},
		{Name: "P->QPb|a;Q->x?", Rules: []*G{A(S(N(1), N(0), b), a), O(x)}, Finite: true, Recursive: true},
		{Name: "P->P|a", Rules: []*G{A(N(0), a)}, Finite: true, Recursive: true},
		{Name: "P->P?a", Rules: []*G{S(O(N(0)), a)}, Finite: true, Recursive: true},
		{Name: "P->(P|a|P?)b", Rules: []*G{S(A(N(0), a, O(N(0))), b)}, Finite: true, Recursive: true},
		{Name: "P->VxV;V->a|P", Rules: []*G{S(N(1), x, N(1)), A(a, N(0))}, Finite: true, Recursive: true},
		{Name: "a*b", Rules: []*G{S(M(a), b)}, Finite: true, LRFree: true},
		{Name: "a+", Rules: []*G{M1(a)}, Finite: true, LRFree: true},
		{Name: "(a|b)*", Rules: []*G{M(A(a, b))}, Finite: true, LRFree: true},
		{Name: "sepby(a,x)", Rules: []*G{SB(a, x)}, Finite: true, LRFree: true},
		{Name: "sepby1(a,x)b?", Rules: []*G{S(SB1(a, x), O(b))}, Finite: true, LRFree: true},
		{Name: "sepby(V,x);V->a|ab", Rules: []*G{SB(N(1), x), A(a, S(a, b))}, Finite: true, LRFree: true},
		{Name: "seqtry(a,b,x)", Rules: []*G{ST(a, b, x)}, Finite: true, LRFree: true},
		{Name: "seqfirstorall(a,b)x?", Rules: []*G{S(SF(a, b), O(x))}, Finite: true, LRFree: true},
		{Name: "choice(ab,a)b?", Rules: []*G{S(C(S(a, b), a), O(b))}, Finite: true, LRFree: true},
		{Name: "choice(a,ab)b?", Rules: []*G{S(C(a, S(a, b)), O(b))}, Finite: true, LRFree: true},
		{Name: "P->choice(Q,a)b;Q->aa", Rules: []*G{S(C(N(1), a), b), S(a, a)}, Finite: true, LRFree: true},
		{Name: "any(eps,a)", Rules: []*G{A(E(), a)}, Finite: true, LRFree: true},
		{Name: "a?a?", Rules: []*G{S(O(a), O(a))}, Finite: true, LRFree: true},
		{Name: "(a?)?b", Rules: []*G{S(O(O(a)), b)}, Finite: true, LRFree: true},
		{Name: "P->Pa*|b", Rules: []*G{A(S(N(0), M1(a)), b)}, Finite: true, Recursive: true},
		{Name: "P->PP|a|eps", Rules: []*G{A(S(N(0), N(0)), a, E())}, Finite: false, Recursive: true, MaxN: 1},
		{Name: "E->ExT|T;T->TbF|F;F->a", Rules: []*G{A(S(N(0), x, N(1)), N(1)), A(S(N(1), b, N(2)), N(2)), a}, Finite: true, Recursive: true},
		{Name: "A->Bx|a;B->Ab|b", Rules: []*G{A(S(N(1), x), a), A(S(N(0), b), b)}, Finite: true, Recursive: true},
		{Name: "P->a(P|eps)", Rules: []*G{S(a, A(N(0), E()))}, Finite: true, LRFree: true, Recursive: true},
		{Name: "P->many(Q)b;Q->a|ax", Rules: []*G{S(M(N(1)), b), A(a, S(a, x))}, Finite: true, LRFree: true},
		{Name: "P->seqtry(a,P)|b", Rules: []*G{A(ST(a, N(0)), b)}, Finite: true, LRFree: true, Recursive: true},
		{Name: "R->Qb|Qx;Q->aa", Rules: []*G{A(S(N(1), b), S(N(1), x)), S(a, a)}, Finite: true, LRFree: true},
		{Name: "a(bx)?b", Rules: []*G{S(a, O(S(b, x)), b)}, Finite: true, LRFree: true},
		{Name: "sepby1(a(bx)?,nl)", Rules: []*G{SB1(S(a, O(S(b, x))), nl)}, Finite: true, LRFree: true},
		{Name: "R->(M|x)b|(M|b)x|(M|a)a;M->a|aa|aaa", Rules: []*G{A(S(A(N(1), x), b), S(A(N(1), b), x), S(A(N(1), a), a)), A(a, S(a, a), S(a, a, a))}, Finite: true, LRFree: true},
		{Name: "X->Yb;Y->Ya|b|X", Rules: []*G{S(N(1), b), A(S(N(1), a), b, N(0))}, Finite: true, Recursive: true},
		{Name: "R->M|((M|a+)|(M|a+b));M->a|ab|abx", Rules: []*G{A(N(1), A(A(N(1), M1(a)), A(N(1), S(M1(a), b)))), A(a, S(a, b), S(a, b, x))}, Finite: true, LRFree: true},
		{Name: "R->(M|x)|(M|a+)|(M|a+b);M->a|ab|abx", Rules: []*G{A(A(N(1), x), A(N(1), M1(a)), A(N(1), S(M1(a), b))), A(a, S(a, b), S(a, b, x))}, Finite: true, LRFree: true},
		{Name: "R->(a?|Q)x|Qb;Q->b?|x", Rules: []*G{A(S(A(O(a), N(1)), x), S(N(1), b)), A(O(b), x)}, Finite: true, LRFree: true},
		{Name: "choice((ab)?,x)b?", Rules: []*G{S(C(O(S(a, b)), x), O(b))}, Finite: true, LRFree: true},
		{Name: "R->Q?a|Q?b;Q->sup(x)", Rules: []*G{A(S(O(N(1)), a), S(O(N(1)), b)), SUP(x)}, Finite: true, LRFree: true},
		{Name: "any((abx)?,a)", Rules: []*G{A(O(S(a, b, x)), a)}, Finite: true, LRFree: true},
		{Name: "any((abx)?,a)b?", Rules: []*G{S(A(O(S(a, b, x)), a), O(b))}, Finite: true, LRFree: true},
		{Name: "A->Ax|X;X->A?b", Rules: []*G{A(S(N(0), x), N(1)), S(O(N(0)), b)}, Finite: true, Recursive: true},
		{Name: "(a|aa)*", Rules: []*G{M(A(a, S(a, a)))}, Finite: true, LRFree: true},
		{Name: "E->ExT|T;T->(a|ab)+", Rules: []*G{A(S(N(0), x, N(1)), N(1)), M1(A(a, S(a, b)))}, Finite: true, Recursive: true},
		{Name: "P->Pa", Rules: []*G{S(N(0), a)}, Finite: true, Recursive: true},
		{Name: "A->Ba;B->Ab", Rules: []*G{S(N(1), a), S(N(0), b)}, Finite: true, Recursive: true},
		{Name: "R->Qax|Qb;Q->(ab)?", Rules: []*G{A(S(N(1), a, x), S(N(1), b)), O(S(a, b))}, Finite: true, LRFree: true},
		{Name: "R->sup(Qx)|Qb;Q->(ab)?", Rules: []*G{A(SUP(S(N(1), x)), S(N(1), b)), O(S(a, b))}, Finite: true, LRFree: true},
		{Name: "a%b", Rules: []*G{S(a, T('%'), b)}, Finite: true, LRFree: true},
		{Name: "P->x?aP|b", Rules: []*G{A(S(O(x), a, N(0)), b)}, Finite: true, LRFree: true, Recursive: true},
		{Name: "x(ab)*x", Rules: []*G{S(x, M(S(a, b)), x)}, Finite: true, LRFree: true},
		{Name: "x sepby(ab,x) b", Rules: []*G{S(x, SB(S(a, b), x), b)}, Finite: true, LRFree: true},
		{Name: "(a|nl)*b", Rules: []*G{S(M(A(a, nl)), b)}, Finite: true, LRFree: true},
		{Name: "L->L nl a|a", Rules: []*G{A(S(N(0), nl, a), a)}, Finite: true, Recursive: true},
	})
}

// Systematic builds the k-th sampled grammar of the generated part of the
// family: two memoized nonterminals, each a union (Any; one in five a Choice)
// of 1..3 alternatives, each alternative a sequence of 1..3 symbols from
// {a, b, P, Q} or — one time in three at the head of an alternative (hidden
// left recursion), one in eight elsewhere — an optional group (x)?, (xy)? or a
// repetition x+ over terminals. The sample
// is drawn by a fixed pseudo-random sequence from the seed, so every run with
// the same seed checks the same grammars and different seeds check others.
// No empty alternatives: every tree is finite and every grammar has finitely
// many trees per input; no unit alternatives, at most two nonterminals per
// alternative (otherwise result sets explode with duplicates).
// Unstratified, when set, lets the alternatives of a generated Choice begin
// with a nonterminal (experiment only: such grammars have no agreed meaning).
var Unstratified = false

func Systematic(seed, k int) *Grammar {
	state := uint64(seed)*0x9E3779B97F4A7C15 + uint64(k)*0xBF58476D1CE4E5B9 + 0x94D049BB133111EB
	next := func(n int) int {
		state ^= state >> 30
		state *= 0xBF58476D1CE4E5B9
		state ^= state >> 27
		state *= 0x94D049BB133111EB
		state ^= state >> 31
		return int(state % uint64(n))
	}
	name := ""
	sym := func() (*G, string) {
		// nonterminals a little more often than terminals: the interesting
		// behaviour (curtailment, cache reuse) lives in the recursion
		switch next(5) {
		case 0:
			return T('a'), "a"
		case 1:
			return T('b'), "b"
		case 2:
			return N(0), "P"
		case 3:
			return N(1), "Q"
		}
		if next(2) == 0 {
			return N(0), "P"
		}
		return N(1), "Q"
	}
	term := func() (*G, string) {
		if next(2) == 0 {
			return T('a'), "a"
		}
		return T('b'), "b"
	}
	rules := make([]*G, 2)
	for r := range rules {
		if r == 0 {
			name += "P->"
		} else {
			name += ";Q->"
		}
		// one rule body in five is a Choice (first match); its alternatives
		// start with a terminal so that every nonterminal in them is guarded
		choice := next(5) == 0
		if Unstratified {
			choice = next(2) == 0
		}
		nalt := 1 + next(3)
		var alts []*G
		sep := "|"
		if choice {
			sep = "/"
		}
		for i := 0; i < nalt; i++ {
			if i > 0 {
				name += sep
			}
			l := 1 + next(3)
			var seq []*G
			nts := 0
			groups, plain := 0, 0
			for j := 0; j < l; j++ {
				var g *G
				var n string
				switch {
				case l >= 2 && !(choice && j == 0 && !Unstratified) && ((j == 0 && next(3) == 0) || (j > 0 && next(8) == 0)):
					// an optional group of one or two terminals, or a repetition
					t1, n1 := term()
					switch next(4) {
					case 3:
						// an optional nonterminal (hidden recursion through a nullable prefix)
						if next(2) == 0 {
							g, n = O(N(0)), "(P)?"
						} else {
							g, n = O(N(1)), "(Q)?"
						}
					case 0:
						g, n = O(t1), "("+n1+")?"
					case 1:
						t2, n2 := term()
						g, n = O(S(t1, t2)), "("+n1+n2+")?"
					default:
						g, n = M1(t1), n1+"+"
						plain++
					}
					groups++
				default:
					g, n = sym()
					// no unit alternatives (cycles of unit rules multiply duplicates
					// without adding trees), at most two nonterminals per alternative,
					// and a terminal first in a Choice alternative
					for g.K == KNT && (l == 1 || nts >= 2 || (choice && j == 0 && !Unstratified)) {
						g, n = sym()
					}
					if g.K == KNT {
						nts++
					} else {
						plain++
					}
				}
				seq = append(seq, g)
				name += n
			}
			if groups > 0 && plain == 0 {
				// an alternative with optional groups must consume: add a terminal
				t, n := term()
				seq = append(seq, t)
				name += n
			}
			if len(seq) == 1 {
				alts = append(alts, seq[0])
			} else {
				alts = append(alts, S(seq...))
			}
		}
		// a terminal alternative so that the nonterminal derives something
		if next(4) != 0 {
			g, n := term()
			alts = append(alts, g)
			name += sep + n
		}
		if choice {
			rules[r] = C(alts...)
		} else {
			rules[r] = A(alts...)
		}
	}
	return &Grammar{Name: name, Rules: rules, Finite: true, Recursive: true, MaxN: 4}
}

// uniq gives every occurrence of a sub-expression its own node, so that
// per-node probes and memoization choices never alias.
func uniq(gs []*Grammar) []*Grammar {
	var cp func(e *G) *G
	cp = func(e *G) *G {
		n := &G{K: e.K, Ch: e.Ch, NT: e.NT, Mode: e.Mode}
		for _, k := range e.Kids {
			n.Kids = append(n.Kids, cp(k))
		}
		return n
	}
	for _, g := range gs {
		for i, r := range g.Rules {
			g.Rules[i] = cp(r)
		}
	}
	return gs
}

// Sharing is the list of shapes in which one memoized result reaches several
// consumers (C07); the trimmed ones have no reference semantics.
func Sharing() []*Grammar {
	m3 := A(a, S(a, a), S(a, a, a))
	return uniq([]*Grammar{
		{Name: "R->(M|x)b|(M|b)x;M->a|aa|aaa", Rules: []*G{A(S(A(N(1), x), b), S(A(N(1), b), x)), m3}, Finite: true},
		{Name: "R->Mb|M?b;M->a?|ab", Rules: []*G{A(S(N(1), b), S(O(N(1)), b)), A(O(a), S(a, b))}, Finite: true},
		{Name: "R->M?b|Mx;M->a|aa|aaa", Rules: []*G{A(S(O(N(1)), b), S(N(1), x)), m3}, Finite: true},
		{Name: "R->(M|x)(M|b);M->a|aa", Rules: []*G{S(A(N(1), x), A(N(1), b)), A(a, S(a, a))}, Finite: true},
		{Name: "R->(M|x)b|(M|b)x|(M|a)a;M->a|aa|aaa", Rules: []*G{A(S(A(N(1), x), b), S(A(N(1), b), x), S(A(N(1), a), a)), m3}, Finite: true},
		{Name: "R->M?b|M?x|M?a;M->a|aa|aaa", Rules: []*G{A(S(O(N(1)), b), S(O(N(1)), x), S(O(N(1)), a)), m3}, Finite: true},
		{Name: "R->M|((M|a+)|(M|a+b));M->a|ab|abx", Rules: []*G{A(N(1), A(A(N(1), M1(a)), A(N(1), S(M1(a), b)))), A(a, S(a, b), S(a, b, x))}, Finite: true},
		{Name: "R->(M|x)|(M|a+)|(M|a+b);M->a|ab|abx", Rules: []*G{A(A(N(1), x), A(N(1), M1(a)), A(N(1), S(M1(a), b))), A(a, S(a, b), S(a, b, x))}, Finite: true},
		{Name: "R->(a?|Q)x|Qb;Q->b?|x", Rules: []*G{A(S(A(O(a), N(1)), x), S(N(1), b)), A(O(b), x)}, Finite: true},
		{Name: "R->(a?|Q)|Q;Q->b?|x|xx", Rules: []*G{A(A(O(a), N(1)), N(1)), A(O(b), x, S(x, x))}, Finite: true},
		{Name: "R->single(M)x|Mb;M->(a)|ab", Rules: []*G{A(S(SG(N(1)), x), S(N(1), b)), A(S(a), S(a, b))}, Finite: true},
		{Name: "R->Mb|single(M)x|Mx;M->(a)|ab|a+", Rules: []*G{A(S(N(1), b), S(SG(N(1)), x), S(N(1), x)), A(S(a), S(a, b), M1(a))}, Finite: true},
		{Name: "R->rtrim(xM)b|xMa;M->a", Rules: []*G{A(S(RT(S(x, N(1))), b), S(x, N(1), a)), a}, Finite: true},
		{Name: "R->rtrim(M)b|Mx;M->a", Rules: []*G{A(S(RT(N(1)), b), S(N(1), x)), a}, Finite: true},
		{Name: "R->rtrim(M)b|Mx;M->a|aa", Rules: []*G{A(S(RT(N(1)), b), S(N(1), x)), A(a, S(a, a))}, Finite: true},
		{Name: "R->Mx|rtrim(M)b;M->a", Rules: []*G{A(S(N(1), x), S(RT(N(1)), b)), a}, Finite: true},
	})
}

// Productive reports whether every nonterminal derives at least one terminal
// string (a rule such as Q -> Q P alone does not).
func (g *Grammar) Productive() bool {
	prod := make([]bool, len(g.Rules))
	var ok func(e *G) bool
	ok = func(e *G) bool {
		switch e.K {
		case KTerm, KEmpty, KOpt, KMany, KSepBy:
			return true
		case KNT:
			return prod[e.NT]
		case KAny, KChoice:
			for _, k := range e.Kids {
				if ok(k) {
					return true
				}
			}
			return false
		case KSeqTry, KSeqFirstOrAll:
			return ok(e.Kids[0])
		case KMany1, KSepBy1, KRTrim, KLTrim, KSuppress, KSingle:
			return ok(e.Kids[0])
		}
		for _, k := range e.Kids {
			if !ok(k) {
				return false
			}
		}
		return true
	}
	for changed := true; changed; {
		changed = false
		for i, r := range g.Rules {
			if !prod[i] && ok(r) {
				prod[i] = true
				changed = true
			}
		}
	}
	for _, p := range prod {
		if !p {
			return false
		}
	}
	return true
}

// TrimShapes: recursive memoized rules with whitespace trimming around the
// recursive call or around a terminal, in each of the four modes (C02: the
// re-entry bound does not depend on what is trimmed where).
func TrimShapes() []*Grammar {
	a, b := T('a'), T('b')
	var out []*Grammar
	modes := []text.WsMode{text.WsNone, text.WsSpaces, text.WsSpacesNl, text.WsSpacesForceNl}
	names := []string{"none", "spaces", "nl", "forcenl"}
	for i, m := range modes {
		n := names[i]
		out = append(out,
			&Grammar{Name: "P->ltrim[" + n + "](P)b|a", Rules: []*G{A(S(LTm(N(0), m), b), a)}, Recursive: true},
			&Grammar{Name: "P->rtrim[" + n + "](P)b|a", Rules: []*G{A(S(RTm(N(0), m), b), a)}, Recursive: true},
			&Grammar{Name: "P->P ltrim[" + n + "](b)|a", Rules: []*G{A(S(N(0), LTm(b, m)), a)}, Recursive: true},
			&Grammar{Name: "P->ltrim[" + n + "](a)?Pb|a", Rules: []*G{A(S(O(LTm(a, m)), N(0), b), a)}, Recursive: true},
			&Grammar{Name: "P->ltrim[" + n + "](Q)b|a;Q->rtrim[" + n + "](P)", Rules: []*G{A(S(LTm(N(1), m), b), a), RTm(N(0), m)}, Recursive: true},
		)
	}
	return uniq(out)
}

// TrimFree: left-recursion-free grammars with whitespace trimming (C03: a
// trimmed repetition as the shared prefix of two alternatives, so that the
// same sub-parser is asked twice at one position and whitespace errors are
// recorded on the way).
func TrimFree() []*Grammar {
	a, b, x := T('a'), T('b'), T('x')
	var out []*Grammar
	modes := []text.WsMode{text.WsNone, text.WsSpaces, text.WsSpacesNl, text.WsSpacesForceNl}
	names := []string{"none", "spaces", "nl", "forcenl"}
	for i, m := range modes {
		n := names[i]
		nlb := func() *G { return LTm(b, text.WsSpacesNl) }
		// Q: a trimmed repetition that can record a whitespace error while
		// matching nothing; B: a repetition of a three-terminal sequence that
		// can fail inside an iteration (its error reaches the context only)
		q := M(LTm(b, m))
		blk := M(S(nlb(), b, x))
		out = append(out,
			&Grammar{Name: "R->choice(Q B x, Q ltrim[nl](b));Q->ltrim[" + n + "](b)*;B->(ltrim[nl](b) b x)*",
				Rules: []*G{C(S(N(1), N(2), x), S(N(1), nlb())), q, blk}, LRFree: true, Finite: true},
			&Grammar{Name: "R->Q B x|Q ltrim[nl](b);Q->ltrim[" + n + "](b)*;B->(ltrim[nl](b) b x)*",
				Rules: []*G{A(S(N(1), N(2), x), S(N(1), nlb())), q, blk}, LRFree: true, Finite: true},
			&Grammar{Name: "R->rtrim[" + n + "](a) Q x|rtrim[" + n + "](a) Q;Q->ltrim[" + n + "](b)?",
				Rules: []*G{A(S(RTm(a, m), N(1), x), S(RTm(a, m), N(1))), O(LTm(b, m))}, LRFree: true, Finite: true},
		)
	}
	return uniq(out)
}

// HasTrim reports whether the grammar uses RightTrim.
func (g *Grammar) HasTrim() bool {
	found := false
	var walk func(e *G)
	walk = func(e *G) {
		if e.K == KRTrim {
			found = true
		}
		for _, k := range e.Kids {
			walk(k)
		}
	}
	for _, r := range g.Rules {
		walk(r)
	}
	return found
}

// sameButEnds reports whether two renderings differ only in the end
// positions of spans ("[p,rp]").
func sameButEnds(x, y string) bool {
	i, j := 0, 0
	for i < len(x) && j < len(y) {
		if x[i] != y[j] {
			return false
		}
		if x[i] == ',' {
			// skip the digits of the end position on both sides
			i++
			j++
			for i < len(x) && x[i] >= '0' && x[i] <= '9' {
				i++
			}
			for j < len(y) && y[j] >= '0' && y[j] <= '9' {
				j++
			}
			continue
		}
		i++
		j++
	}
	return i == len(x) && j == len(y)
}

// Alphabet returns the terminal bytes used by the grammar.
func (g *Grammar) Alphabet() []byte {
	var out []byte
	var walk func(e *G)
	walk = func(e *G) {
		if e.K == KTerm {
			for _, c := range out {
				if c == e.Ch {
					return
				}
			}
			out = append(out, e.Ch)
		}
		for _, k := range e.Kids {
			walk(k)
		}
	}
	for _, r := range g.Rules {
		walk(r)
	}
	return out
}

// ---- construction with the real combinators ----

// Wrap lets a harness put probes around parsers as they are built.
type Wrap struct {
	// Rule wraps the body of nonterminal i (inside Memoize).
	Rule func(i int, p parsley.Parser) parsley.Parser
	// NT wraps the memoized nonterminal i (outside Memoize).
	NT func(i int, p parsley.Parser) parsley.Parser
	// Leaf wraps every terminal parser.
	Leaf func(e *G, p parsley.Parser) parsley.Parser
	// Node wraps every other sub-parser.
	Node func(e *G, p parsley.Parser) parsley.Parser
	// Inner wraps a sub-parser below the optional Memoize of MemoNode.
	Inner func(e *G, p parsley.Parser) parsley.Parser
	// NoMemo builds nonterminals without Memoize (only valid for LR-free grammars).
	NoMemo bool
	// MemoNode additionally memoizes the sub-parsers it selects (C03).
	MemoNode func(e *G) bool
	// TrimOperand wraps the direct operand of a RightTrim.
	TrimOperand func(p parsley.Parser) parsley.Parser
	// NameSeq, when set, also names every SeqOf as "seq".
	NameSeq bool
	// Name, when set, names every Any/Choice as "expr".
	Name bool
}

// Built is a grammar instantiated with real parsers.
type Built struct {
	G    *Grammar
	NTs  []parser.Func
	Root parsley.Parser
}

func Build(g *Grammar, w *Wrap) *Built {
	if w == nil {
		w = &Wrap{}
	}
	bt := &Built{G: g, NTs: make([]parser.Func, len(g.Rules))}
	for i, r := range g.Rules {
		body := bt.build(r, w)
		if w.Rule != nil {
			body = w.Rule(i, body)
		}
		var p parsley.Parser
		if w.NoMemo {
			p = body
		} else {
			p = combinator.Memoize(body)
		}
		if w.NT != nil {
			p = w.NT(i, p)
		}
		pp := p
		bt.NTs[i] = func(ctx *parsley.Context, lrc data.IntMap, pos parsley.Pos) (parsley.Node, data.IntSet, parsley.Error) {
			return pp.Parse(ctx, lrc, pos)
		}
	}
	bt.Root = &bt.NTs[0]
	return bt
}

func (bt *Built) build(e *G, w *Wrap) parsley.Parser {
	var p parsley.Parser
	kids := func() []parsley.Parser {
		out := make([]parsley.Parser, len(e.Kids))
		for i, k := range e.Kids {
			out[i] = bt.build(k, w)
		}
		return out
	}
	switch e.K {
	case KTerm:
		p = terminal.Rune(rune(e.Ch))
		if w.Inner != nil {
			p = w.Inner(e, p)
		}
		if w.MemoNode != nil && w.MemoNode(e) {
			p = combinator.Memoize(p)
		}
		if w.Leaf != nil {
			p = w.Leaf(e, p)
		}
		return p
	case KEmpty:
		p = parser.Empty()
	case KNT:
		return &bt.NTs[e.NT]
	case KSeq:
		sq := combinator.SeqOf(kids()...)
		if w.NameSeq {
			sq = sq.Name("seq")
		}
		p = sq
	case KAny:
		f := combinator.Any(kids()...)
		if w.Name {
			f = f.Name("expr")
		}
		p = f
	case KChoice:
		f := combinator.Choice(kids()...)
		if w.Name {
			f = f.Name("expr")
		}
		p = f
	case KOpt:
		p = combinator.Optional(bt.build(e.Kids[0], w))
	case KMany:
		p = combinator.Many(bt.build(e.Kids[0], w))
	case KMany1:
		p = combinator.Many1(bt.build(e.Kids[0], w))
	case KSepBy:
		p = combinator.SepBy(bt.build(e.Kids[0], w), bt.build(e.Kids[1], w))
	case KSepBy1:
		p = combinator.SepBy1(bt.build(e.Kids[0], w), bt.build(e.Kids[1], w))
	case KSeqTry:
		p = combinator.SeqTry(kids()...)
	case KSeqFirstOrAll:
		p = combinator.SeqFirstOrAll(kids()...)
	case KRTrim:
		kid := bt.build(e.Kids[0], w)
		if w.TrimOperand != nil {
			kid = w.TrimOperand(kid)
		}
		p = text.RightTrim(kid, e.Mode)
	case KLTrim:
		p = text.LeftTrim(bt.build(e.Kids[0], w), e.Mode)
	case KSuppress:
		p = combinator.SuppressError(bt.build(e.Kids[0], w))
	case KSingle:
		p = combinator.Single(bt.build(e.Kids[0], w))
	}
	if w.Inner != nil {
		p = w.Inner(e, p)
	}
	if w.MemoNode != nil && w.MemoNode(e) {
		p = combinator.Memoize(p)
	}
	if w.Node != nil {
		p = w.Node(e, p)
	}
	return p
}

// ---- rendering of real results ----

func itoa(n int) string {
	if n == 0 {
		return "0"
	}
	neg := n < 0
	if neg {
		n = -n
	}
	s := ""
	for n > 0 {
		s = string(rune('0'+n%10)) + s
		n /= 10
	}
	if neg {
		s = "-" + s
	}
	return s
}

func span(p, rp int) string { return "[" + itoa(p) + "," + itoa(rp) + "]" }

// Render renders a node with positions relative to base.
func Render(n parsley.Node, base int) string {
	switch t := n.(type) {
	case nil:
		return "nil"
	case ast.NodeList:
		s := "LIST{"
		for i, e := range t {
			if i > 0 {
				s += " "
			}
			s += Render(e, base)
		}
		return s + "}"
	case ast.EmptyNode:
		return "E" + span(int(t.Pos())-base, int(t.ReaderPos())-base)
	case parser.EndNode:
		return "EOF" + span(int(t.Pos())-base, int(t.ReaderPos())-base)
	case *ast.TerminalNode:
		return "T(" + t.Token() + ")" + span(int(t.Pos())-base, int(t.ReaderPos())-base)
	case *ast.NonTerminalNode:
		s := "N(" + t.Token() + ")" + span(int(t.Pos())-base, int(t.ReaderPos())-base) + "{"
		for i, c := range t.Children() {
			if i > 0 {
				s += " "
			}
			s += Render(c, base)
		}
		return s + "}"
	}
	return "?(" + n.Token() + ")" + span(int(n.Pos())-base, int(n.ReaderPos())-base)
}

// Alternatives flattens a parser result into its alternatives.
func Alternatives(n parsley.Node) []parsley.Node {
	if n == nil {
		return nil
	}
	if l, ok := n.(ast.NodeList); ok {
		return []parsley.Node(l)
	}
	return []parsley.Node{n}
}

// SpansOK checks the structural part of "a valid derivation whose leaves
// spell the consumed input with contiguous spans".
func SpansOK(n parsley.Node, in []byte, base int) bool {
	p, rp := int(n.Pos())-base, int(n.ReaderPos())-base
	if p < 0 || rp < p || rp > len(in) {
		return false
	}
	switch t := n.(type) {
	case ast.EmptyNode:
		return p == rp
	case *ast.TerminalNode:
		if rp != p+1 {
			return false
		}
		r, ok := t.Value().(rune)
		return ok && rune(in[p]) == r && t.Token() == string(r)
	case *ast.NonTerminalNode:
		cs := t.Children()
		if len(cs) == 0 {
			return p == rp
		}
		cur := p
		for _, c := range cs {
			if c == nil || int(c.Pos())-base != cur || !SpansOK(c, in, base) {
				return false
			}
			cur = int(c.ReaderPos()) - base
		}
		return cur == rp
	}
	return false
}
