package gram

import (
	"errors"

	"github.com/opsidian/parsley/ast"

	"github.com/opsidian/parsley/combinator"
	"github.com/opsidian/parsley/data"
	"github.com/opsidian/parsley/parsley"

	"vh/rt"
)

func init() {
	rt.Register("C03_MemoTransparent", C03_MemoTransparent)
	rt.Register("C06_FurthestFailure", C06_FurthestFailure)
	rt.Register("C07_Immutable", C07_Immutable)
}

// ---- C03 ----

type countProbe struct {
	inner parsley.Parser
	id    int
	cnt   map[actKey]int
}

func (p *countProbe) Parse(ctx *parsley.Context, lrc data.IntMap, pos parsley.Pos) (parsley.Node, data.IntSet, parsley.Error) {
	p.cnt[actKey{p.id, int(pos)}]++
	return p.inner.Parse(ctx, lrc, pos)
}

// nodesOf lists the sub-expressions of a grammar that can be wrapped.
func nodesOf(g *Grammar) []*G {
	var out []*G
	var walk func(e *G)
	walk = func(e *G) {
		if e.K == KNT {
			return
		}
		out = append(out, e)
		for _, k := range e.Kids {
			walk(k)
		}
	}
	for _, r := range g.Rules {
		walk(r)
	}
	return out
}

type runResult struct {
	res    string
	errPos int
	errMsg string
	ctxPos int
	calls  int
}

func errInfo(err parsley.Error, base int) (int, string) {
	if err == nil {
		return -1, ""
	}
	return int(err.Pos()) - base, err.Error()
}

func runOnce(bt *Built, in []byte) runResult {
	e := newEnv(in)
	node, _, err := bt.Root.Parse(e.ctx, data.EmptyIntMap, e.rd.Pos(0))
	var r runResult
	r.res = Render(node, e.base)
	r.errPos, r.errMsg = errInfo(err, e.base)
	r.ctxPos, _ = errInfo(e.ctx.Error(), e.base)
	r.calls = e.ctx.CallCount()
	return r
}

// C03_MemoTransparent: memoizing any subset of sub-parsers of an LR-free
// grammar changes nothing but the call count.
func C03_MemoTransparent() {
	usePlacement()
	g := pickGrammar(func(g *Grammar) bool { return g.LRFree })
	in := inputFor(g, rt.Param("N", 3))
	rt.Note(g.Name)
	nodes := nodesOf(g)
	m := len(nodes)
	// subset selection: all subsets when few nodes, else empty/singletons/full
	var sel func(e *G) bool
	memoNTs := false
	if m <= rt.Param("allsubsets", 3) {
		mask := rt.Choose("subset", 1<<uint(m))
		sel = func(e *G) bool {
			for i, n := range nodes {
				if n == e {
					return mask&(1<<uint(i)) != 0
				}
			}
			return false
		}
	} else {
		k := rt.Choose("subset", m+2)
		sel = func(e *G) bool {
			if k == m {
				return true
			}
			if k == m+1 {
				return false
			}
			return nodes[k] == e
		}
		if k == m+1 {
			memoNTs = true // only the nonterminals are memoized
		}
	}
	if rt.Choose("nts", 2) == 1 {
		memoNTs = true
	}
	rt.PermuteMaps(true)
	plain := runOnce(Build(g, &Wrap{NoMemo: true}), in)
	cnt := map[actKey]int{}
	ids := map[*G]int{}
	for i, n := range nodes {
		ids[n] = i
	}
	w := &Wrap{
		NoMemo:   !memoNTs,
		MemoNode: sel,
		Inner: func(e *G, p parsley.Parser) parsley.Parser {
			if sel(e) {
				return &countProbe{inner: p, id: ids[e], cnt: cnt}
			}
			return p
		},
	}
	if memoNTs {
		w.Rule = func(i int, p parsley.Parser) parsley.Parser {
			return &countProbe{inner: p, id: 1000 + i, cnt: cnt}
		}
	}
	memo := Build(g, w)
	r1 := runOnce(memo, in)
	for _, c := range cnt {
		if c > 1 {
			rt.Fail("at-most-once", g.Name+" on "+showInput(in)+": a memoized parser ran "+itoa(c)+" times at one position")
			return
		}
	}
	if len(cnt) > 0 {
		rt.Cover("a memoized parser was run")
	}
	rt.ObsStr("result", r1.res)
	rt.ObsInt("errpos", r1.errPos)
	rt.ObsStr("err", r1.errMsg)
	rt.ObsInt("calls", r1.calls)
	if r1.res != plain.res {
		rt.Fail("transparent/results", g.Name+" on "+showInput(in)+": plain "+plain.res+" memoized "+r1.res)
		return
	}
	if r1.errPos != plain.errPos || r1.errMsg != plain.errMsg {
		rt.Fail("transparent/error", g.Name+" on "+showInput(in)+": plain "+plain.errMsg+"@"+itoa(plain.errPos)+" memoized "+r1.errMsg+"@"+itoa(r1.errPos))
		return
	}
	if r1.ctxPos != plain.ctxPos {
		rt.Fail("transparent/furthest-error", g.Name+" on "+showInput(in)+": plain "+itoa(plain.ctxPos)+" memoized "+itoa(r1.ctxPos))
		return
	}
	if r1.calls > plain.calls {
		rt.Fail("transparent/calls-not-more", g.Name+" on "+showInput(in))
		return
	}
	if r1.calls < plain.calls {
		rt.Cover("caching saved calls")
	}
	// repetition with a fresh context
	for k := range cnt {
		delete(cnt, k)
	}
	r2 := runOnce(memo, in)
	if r2 != r1 {
		rt.Fail("deterministic", g.Name+" on "+showInput(in)+": second run differs (calls "+itoa(r1.calls)+" vs "+itoa(r2.calls)+")")
	}
	rt.Assert(true, "memo-transparent")
}

// ---- C06 ----

type failLog struct {
	maxPos int
	msgs   map[int][]string // position -> messages of terminals / end that failed there
	named  map[int]bool     // positions where a named combinator failed
	ends   []int            // end positions of the root's alternatives
	base   int
}

func (f *failLog) fail(pos int, msg string) {
	if pos > f.maxPos {
		f.maxPos = pos
	}
	f.msgs[pos] = append(f.msgs[pos], msg)
}

type leafProbe struct {
	inner parsley.Parser
	log   *failLog
}

func (p *leafProbe) Parse(ctx *parsley.Context, lrc data.IntMap, pos parsley.Pos) (parsley.Node, data.IntSet, parsley.Error) {
	n, cp, err := p.inner.Parse(ctx, lrc, pos)
	if n == nil && err != nil {
		p.log.fail(int(pos)-p.log.base, err.Error())
	}
	return n, cp, err
}

type namedProbe struct {
	inner parsley.Parser
	log   *failLog
}

func (p *namedProbe) Parse(ctx *parsley.Context, lrc data.IntMap, pos parsley.Pos) (parsley.Node, data.IntSet, parsley.Error) {
	n, cp, err := p.inner.Parse(ctx, lrc, pos)
	if n == nil {
		p.log.named[int(pos)-p.log.base] = true
	}
	return n, cp, err
}

type rootProbe struct {
	inner parsley.Parser
	log   *failLog
}

func (p *rootProbe) Parse(ctx *parsley.Context, lrc data.IntMap, pos parsley.Pos) (parsley.Node, data.IntSet, parsley.Error) {
	n, cp, err := p.inner.Parse(ctx, lrc, pos)
	for _, alt := range Alternatives(n) {
		p.log.ends = append(p.log.ends, int(alt.ReaderPos())-p.log.base)
	}
	return n, cp, err
}

// parseLoc splits "…<exp> at f:L:C" and returns exp, L, C.
func parseLoc(msg string, prefix string) (exp string, line, col int, ok bool) {
	if len(msg) < len(prefix) || msg[:len(prefix)] != prefix {
		return "", 0, 0, false
	}
	rest := msg[len(prefix):]
	// last " at f:"
	at := -1
	for i := 0; i+6 <= len(rest); i++ {
		if rest[i:i+6] == " at f:" {
			at = i
		}
	}
	if at < 0 {
		return "", 0, 0, false
	}
	exp = rest[:at]
	loc := rest[at+6:]
	i := 0
	for i < len(loc) && loc[i] >= '0' && loc[i] <= '9' {
		line = line*10 + int(loc[i]-'0')
		i++
	}
	if i == 0 || i >= len(loc) || loc[i] != ':' {
		return "", 0, 0, false
	}
	i++
	j := i
	for i < len(loc) && loc[i] >= '0' && loc[i] <= '9' {
		col = col*10 + int(loc[i]-'0')
		i++
	}
	if i == j || i != len(loc) {
		return "", 0, 0, false
	}
	return exp, line, col, true
}

// lineCol is the reference: 1-based line and byte column of offset q.
func lineCol(in []byte, q int) (int, int) {
	line, col := 1, 1
	for i := 0; i < q && i < len(in); i++ {
		if in[i] == '\n' {
			line++
			col = 1
		} else {
			col++
		}
	}
	return line, col
}

// offsetOf maps (line, col) back to an offset, or -1.
func offsetOf(in []byte, line, col int) int {
	for q := 0; q <= len(in); q++ {
		l, c := lineCol(in, q)
		if l == line && c == col {
			return q
		}
	}
	return -1
}

// C06_FurthestFailure: a failing Sentence-rooted parse reports an error not
// beyond the furthest failed terminal / end-of-input attempt (exactly there
// when every Any/Choice is named), rendered as its real line:column.
func C06_FurthestFailure() {
	g := pickGrammar(nil)
	if !g.Productive() {
		// a nonterminal that derives nothing (Q -> Q P) is only ever curtailed:
		// a named combinator then "fails" at a position where no terminal was
		// tried at all, a case the property's wording does not cover: no claim
		return
	}
	in := inputFor(g, rt.Param("N", 3))
	named := rt.Choose("named", 2) == 1
	rt.Note(g.Name)
	e := newEnv(in)
	log := &failLog{maxPos: -1, msgs: map[int][]string{}, named: map[int]bool{}, base: e.base}
	w := &Wrap{
		Name: named,
		Leaf: func(_ *G, p parsley.Parser) parsley.Parser { return &leafProbe{inner: p, log: log} },
	}
	if named {
		w.Node = func(ge *G, p parsley.Parser) parsley.Parser {
			if ge.K == KAny || ge.K == KChoice {
				return &namedProbe{inner: p, log: log}
			}
			return p
		}
	}
	bt := Build(g, w)
	root := combinator.Sentence(&rootProbe{inner: bt.Root, log: log})
	node, err := parsley.Parse(e.ctx, root)
	if err == nil {
		rt.Assume(false) // only failing parses are the subject
		return
	}
	if node != nil {
		rt.Fail("node-with-error", g.Name)
		return
	}
	// end-of-input attempts: every alternative of the root that stops short
	for _, q := range log.ends {
		if q < len(in) {
			log.fail(q, "was expecting the end of input")
		}
	}
	msg := err.Error()
	rt.ObsStr("error", msg)
	exp, line, col, ok := parseLoc(msg, "failed to parse the input: ")
	if !ok {
		rt.Fail("format", g.Name+" on "+showInput(in)+": "+msg)
		return
	}
	q := offsetOf(in, line, col)
	if q < 0 {
		rt.Fail("location-not-in-file", g.Name+" on "+showInput(in)+": "+msg)
		return
	}
	if log.maxPos < 0 {
		if rt.Param("systematic", 0) > 0 {
			// degenerate generated grammar: no terminal or end-of-input was ever
			// tried (every attempt curtailed), the property says nothing
			return
		}
		rt.Fail("no-failure-recorded", g.Name+" on "+showInput(in)+": "+msg)
		return
	}
	if q > log.maxPos {
		rt.Fail("beyond-furthest", g.Name+" on "+showInput(in)+": "+msg+" but the furthest failure is at offset "+itoa(log.maxPos))
		return
	}
	if q < log.maxPos {
		rt.Cover("reported position before the furthest failure (unnamed)")
	}
	if named && q != log.maxPos {
		rt.Fail("named-not-furthest", g.Name+" on "+showInput(in)+": "+msg+" but the furthest failure is at offset "+itoa(log.maxPos))
		return
	}
	// the expectation really failed at q
	okExp := contains(log.msgs[q], exp)
	if !okExp && named && exp == "was expecting expr" && log.named[q] {
		okExp = true
	}
	if !okExp {
		rt.Fail("expectation-did-not-fail-there", g.Name+" on "+showInput(in)+": "+msg)
		return
	}
	// the position inside the wrapped parsley.Error agrees with the rendered one
	e2 := newEnv(in)
	ctx2 := parsley.NewContext(parsley.NewFileSet(), e2.rd)
	bt2 := Build(g, &Wrap{Name: named})
	_, err2 := parsley.Parse(ctx2, combinator.Sentence(bt2.Root))
	var perr parsley.Error
	if err2 == nil || !errors.As(err2, &perr) {
		rt.Fail("no-positioned-error", g.Name+" on "+showInput(in))
		return
	}
	if int(perr.Pos())-e2.base != q {
		rt.Fail("position-differs-from-rendering", g.Name+" on "+showInput(in)+": "+msg+" vs offset "+itoa(int(perr.Pos())-e2.base))
		return
	}
	if perr.Error() != exp {
		rt.Fail("message-differs-from-rendering", g.Name+" on "+showInput(in)+": "+msg+" vs "+perr.Error())
		return
	}
	l2, c2 := lineCol(in, q)
	rt.Assert(l2 == line && c2 == col, "line-column")
	if line > 1 {
		rt.Cover("error on a later line")
	}
}

// ---- C07 ----

type snap struct {
	node parsley.Node
	tree frozen
	text string
	who  string
}

type snapLog struct {
	snaps []snap
	base  int
	// nodes a RightTrim received directly as its operand's result (the known
	// finding is RightTrim moving the end of exactly such a node in place)
	trimmed []parsley.Node
}

type trimProbe struct {
	inner parsley.Parser
	log   *snapLog
}

func (p *trimProbe) Parse(ctx *parsley.Context, lrc data.IntMap, pos parsley.Pos) (parsley.Node, data.IntSet, parsley.Error) {
	n, cp, err := p.inner.Parse(ctx, lrc, pos)
	for _, alt := range Alternatives(n) {
		p.log.trimmed = append(p.log.trimmed, alt)
	}
	return n, cp, err
}

// frozen is a deep copy of what a node read like when it was returned,
// keeping the identity of every node in it.
type frozen struct {
	n    parsley.Node
	head string
	end  int
	kids []frozen
}

func freeze(n parsley.Node, base int) frozen {
	f := frozen{n: n}
	switch t := n.(type) {
	case nil:
		f.head = "nil"
		return f
	case ast.NodeList:
		f.head = "LIST"
		for _, e := range t {
			f.kids = append(f.kids, freeze(e, base))
		}
		return f
	case *ast.NonTerminalNode:
		for _, c := range t.Children() {
			f.kids = append(f.kids, freeze(c, base))
		}
	}
	f.head = kindOf(n) + "(" + n.Token() + ")@" + itoa(int(n.Pos())-base)
	f.end = int(n.ReaderPos()) - base
	return f
}

func kindOf(n parsley.Node) string {
	switch n.(type) {
	case ast.EmptyNode:
		return "E"
	case *ast.TerminalNode:
		return "T"
	case *ast.NonTerminalNode:
		return "N"
	}
	return "?"
}

// masked renders with the end of every direct RightTrim operand hidden.
func (l *snapLog) maskedFrozen(f frozen) string {
	s := f.head
	if f.head != "nil" && f.head != "LIST" {
		if l.wasTrimOperand(f.n) {
			s += "-*"
		} else {
			s += "-" + itoa(f.end)
		}
	}
	if len(f.kids) > 0 {
		s += "{"
		for _, k := range f.kids {
			s += l.maskedFrozen(k) + " "
		}
		s += "}"
	}
	return s
}

func (l *snapLog) maskedNow(n parsley.Node, base int) string {
	return l.maskedFrozen(freeze(n, base))
}

// onlyTrimmedMoved: every difference between what the node read like when it
// was returned and what it reads like now is the end of a node that a
// RightTrim was given directly (compared by identity).
func (l *snapLog) onlyTrimmedMoved(s snap, base int) bool {
	return l.maskedFrozen(s.tree) == l.maskedNow(s.node, base)
}

func (l *snapLog) wasTrimOperand(n parsley.Node) bool {
	switch n.(type) {
	case *ast.TerminalNode, *ast.NonTerminalNode:
		for _, t := range l.trimmed {
			if t == n {
				return true
			}
		}
	}
	return false
}

type snapProbe struct {
	inner parsley.Parser
	who   string
	log   *snapLog
}

func (p *snapProbe) Parse(ctx *parsley.Context, lrc data.IntMap, pos parsley.Pos) (parsley.Node, data.IntSet, parsley.Error) {
	n, cp, err := p.inner.Parse(ctx, lrc, pos)
	if n != nil {
		p.log.snaps = append(p.log.snaps, snap{node: n, tree: freeze(n, p.log.base), text: Render(n, p.log.base), who: p.who})
	}
	return n, cp, err
}

func kindName(k Kind) string {
	return [...]string{"term", "empty", "seq", "any", "choice", "optional", "many", "many1", "sepby", "sepby1", "seqtry", "seqfirstorall", "nt", "rtrim", "suppresserror", "single", "ltrim"}[k]
}

// C07_Immutable: whatever a parser returned reads the same at the end of the
// parse, and a memoized parser asked again gives the same answer.
func C07_Immutable() {
	useSharing := rt.Choose("family", 2) == 1
	var g *Grammar
	if useSharing {
		sh := Sharing()
		g = sh[rt.Choose("grammar", len(sh))]
	} else {
		g = pickGrammar(nil)
	}
	n := rt.Param("N", 3)
	if useSharing {
		n = rt.Param("NS", 4)
	}
	in := inputFor(g, n)
	rt.Note(g.Name)
	e := newEnv(in)
	log := &snapLog{base: e.base}
	mk := func(who string) func(p parsley.Parser) parsley.Parser {
		return func(p parsley.Parser) parsley.Parser { return &snapProbe{inner: p, who: who, log: log} }
	}
	w := &Wrap{
		Leaf:        func(ge *G, p parsley.Parser) parsley.Parser { return mk("terminal")(p) },
		Node:        func(ge *G, p parsley.Parser) parsley.Parser { return mk(kindName(ge.K))(p) },
		NT:          func(i int, p parsley.Parser) parsley.Parser { return mk("nonterminal " + itoa(i))(p) },
		TrimOperand: func(p parsley.Parser) parsley.Parser { return &trimProbe{inner: p, log: log} },
	}
	bt := Build(g, w)
	root := combinator.Sentence(bt.Root)
	first, _, _ := root.Parse(e.ctx, data.EmptyIntMap, e.rd.Pos(0))
	firstText := Render(first, e.base)
	rt.ObsStr("result", firstText)
	rt.ObsInt("snapshots", len(log.snaps))
	if len(log.snaps) > 0 {
		rt.Cover("results were returned")
	}
	for _, s := range log.snaps {
		now := Render(s.node, e.base)
		if now != s.text {
			if g.HasTrim() && log.onlyTrimmedMoved(s, e.base) {
				// RightTrim moved the end of a node another holder also has
				rt.Fail("rtrim-moved-end-of-shared-node", g.Name+" on "+showInput(in)+": a result of "+s.who+" was "+s.text+" when returned and reads "+now+" at the end of the parse")
				return
			}
			rt.Fail("modified-after-return", g.Name+" on "+showInput(in)+": a result of "+s.who+" was "+s.text+" when returned and reads "+now+" at the end of the parse")
			return
		}
	}
	// asking the memoized nonterminals again (same context: cache hits)
	count := len(log.snaps)
	for i := range bt.NTs {
		for pos := 0; pos <= len(in); pos++ {
			a, _, _ := bt.NTs[i].Parse(e.ctx, data.EmptyIntMap, e.rd.Pos(pos))
			b, _, _ := bt.NTs[i].Parse(e.ctx, data.EmptyIntMap, e.rd.Pos(pos))
			if Render(a, e.base) != Render(b, e.base) {
				rt.Fail("reask-differs", g.Name+" on "+showInput(in)+": nonterminal "+itoa(i)+" at "+itoa(pos))
				return
			}
		}
	}
	for _, s := range log.snaps[:count] {
		if Render(s.node, e.base) != s.text {
			rt.Fail("modified-by-reask", g.Name+" on "+showInput(in)+": a result of "+s.who+" changed when parsers were asked again")
			return
		}
	}
	// and a fresh parse of the same input gives the same tree
	e3 := newEnv(in)
	bt3 := Build(g, nil)
	again, _, _ := combinator.Sentence(bt3.Root).Parse(e3.ctx, data.EmptyIntMap, e3.rd.Pos(0))
	if Render(again, e3.base) != firstText {
		rt.Fail("probed-parse-differs", g.Name+" on "+showInput(in)+": "+firstText+" vs "+Render(again, e3.base))
		return
	}
	rt.Assert(true, "immutable")
}
