// Package hpos: harnesses for C11 (global positions <-> file, line, column).
package hpos

import (
	"github.com/opsidian/parsley/parsley"
	"github.com/opsidian/parsley/text"

	"vh/rt"
)

func init() {
	rt.Register("C11_Offsets", C11_Offsets)
	rt.Register("C11_LineColumn", C11_LineColumn)
	rt.Register("C11_ManyLines", C11_ManyLines)
	rt.Register("C11_ManyFiles", C11_ManyFiles)
}

const maxLen = 1 << 40

// fakeFile is a parsley.File whose length is an arbitrary (symbolic) number.
type fakeFile struct {
	name   string
	length int
	offset int
	asked  []int // arguments of Position calls
}

type fakePosition struct {
	file *fakeFile
	off  int
}

func (p fakePosition) String() string { return p.file.name }

func (f *fakeFile) Position(off int) parsley.Position {
	f.asked = append(f.asked, off)
	return fakePosition{f, off}
}
func (f *fakeFile) Pos(off int) parsley.Pos { return parsley.Pos(f.offset + off) }
func (f *fakeFile) Len() int                { return f.length }
func (f *fakeFile) SetOffset(o int)         { f.offset = o }

func itoa(n int) string {
	if n == 0 {
		return "0"
	}
	s := ""
	for n > 0 {
		s = string(rune('0'+n%10)) + s
		n /= 10
	}
	return s
}

// C11_Offsets: k fake files of arbitrary lengths; base offsets, disjointness,
// attribution of every in-range position and unknown for out-of-range ones.
func C11_Offsets() {
	k := 1 + rt.Choose("files", rt.Param("K", 3))
	files := make([]*fakeFile, k)
	for i := range files {
		files[i] = &fakeFile{name: "f" + itoa(i), length: rt.IntRange("len", 0, maxLen)}
	}
	// half of the runs use NewFileSet(files...), the other half AddFile one by one
	var fs2 *parsley.FileSet
	if rt.Choose("construct", 2) == 0 {
		all := make([]parsley.File, k)
		for i := range files {
			all[i] = files[i]
		}
		fs2 = parsley.NewFileSet(all...)
		// the caller's slice and sets built from parts of it afterwards are
		// none of this set's business
		decoy := &fakeFile{name: "decoy"}
		if k >= 2 {
			other := parsley.NewFileSet(all[:k-1]...)
			other.AddFile(decoy)
		}
		all[0] = &fakeFile{name: "decoy0"}
		rt.Cover("caller's slice reused after construction")
	} else {
		fs2 = parsley.NewFileSet()
		for _, f := range files {
			fs2.AddFile(f)
		}
	}
	// base offsets
	want := 1
	for i, f := range files {
		rt.Assert(f.offset == want, "offset/base")
		if i > 0 {
			rt.Assert(f.offset > files[i-1].offset, "offset/increasing")
		}
		want = want + f.length + 1
	}
	end := want // first position after the last file
	// disjointness: distinct (file, offset) pairs get distinct positions
	if k >= 2 {
		i := rt.Choose("i", k)
		j := rt.Choose("j", k)
		if i != j {
			a := rt.Int("a")
			b := rt.Int("b")
			rt.Assume(a >= 0 && a <= files[i].length && b >= 0 && b <= files[j].length)
			rt.Assert(files[i].Pos(a) != files[j].Pos(b), "disjoint")
		}
	}
	// out of range
	rt.Assert(fs2.Position(0) == parsley.NilPosition, "unknown/zero")
	q := rt.Int("beyond")
	rt.Assume(q >= end && q <= 1<<50)
	rt.Assert(fs2.Position(parsley.Pos(q)) == parsley.NilPosition, "unknown/past-the-last-file")
	// every in-range position is attributed to the right file and offset
	p := rt.Int("p")
	rt.Assume(p >= 1 && p < end)
	for _, f := range files {
		f.asked = nil
	}
	res := fs2.Position(parsley.Pos(p))
	fp, ok := res.(fakePosition)
	if !ok {
		rt.Fail("attribution/not-a-file-position", "an in-range position was reported as unknown")
		return
	}
	rt.Assert(p >= fp.file.offset && p <= fp.file.offset+fp.file.length, "attribution/file")
	rt.Assert(fp.off == p-fp.file.offset, "attribution/offset")
	n := 0
	for _, f := range files {
		n += len(f.asked)
	}
	rt.Assert(n == 1, "attribution/asked-one-file")
	if p == fp.file.offset+fp.file.length {
		rt.Cover("end-of-file position attributed to its own file")
	}
	if fp.file.length == 0 {
		rt.Cover("position in an empty file")
	}
	rt.ObsStr("file", fp.file.name)
	// a second lookup on the same file set: the answer must not depend on
	// what was looked up before
	// p2: free when there are at most two files; with more files one of the
	// positions around the first lookup (the solver needs them related to p)
	var p2 int
	if k <= 2 {
		p2 = rt.Int("p2")
	} else {
		switch rt.Choose("p2kind", 4) {
		case 0:
			p2 = p + 1
		case 1:
			p2 = p - 1
		case 2:
			p2 = fp.file.offset + fp.file.length + 1 // first position of the next file
		case 3:
			p2 = fp.file.offset - 1 // end-of-file position of the previous file
		}
	}
	rt.Assume(p2 >= 1 && p2 < end)
	for _, f := range files {
		f.asked = nil
	}
	res2 := fs2.Position(parsley.Pos(p2))
	fp2, ok2 := res2.(fakePosition)
	if !ok2 {
		rt.Fail("second-lookup/not-a-file-position", "an in-range position was reported as unknown after an earlier lookup")
		return
	}
	rt.Assert(p2 >= fp2.file.offset && p2 <= fp2.file.offset+fp2.file.length, "second-lookup/file")
	rt.Assert(fp2.off == p2-fp2.file.offset, "second-lookup/offset")
	if fp2.file != fp.file {
		rt.Cover("second lookup in another file")
	}
}

// lineCol is the reference: 1-based line and byte column of offset q in the
// CRLF-normalised content.
func lineCol(in []byte, q int) (int, int) {
	line, col := 1, 1
	for i := 0; i < q && i < len(in); i++ {
		if in[i] == '\n' {
			line++
			col = 1
		} else {
			col++
		}
	}
	return line, col
}

// C11_LineColumn: a real text.File (symbolic content) after fake files of
// arbitrary lengths; every position of the file.
func C11_LineColumn() {
	n := rt.Choose("len", rt.Param("L", 4)+1)
	raw := make([]byte, n)
	for i := range raw {
		raw[i] = rt.Byte("in")
	}
	var data []byte
	for i := 0; i < len(raw); i++ {
		if raw[i] == '\r' && i+1 < len(raw) && raw[i+1] == '\n' {
			rt.Cover("CRLF pair")
			continue
		}
		data = append(data, raw[i])
	}
	cp := make([]byte, len(raw))
	copy(cp, raw)
	real := text.NewFile("real.txt", cp)
	before := rt.Choose("before", 3)
	after := rt.Choose("after", 2)
	var all []parsley.File
	base := 1
	for i := 0; i < before; i++ {
		f := &fakeFile{name: "b" + itoa(i), length: rt.IntRange("len", 0, maxLen)}
		all = append(all, f)
		base += f.length + 1
	}
	all = append(all, real)
	var next *fakeFile
	if after == 1 {
		next = &fakeFile{name: "next", length: rt.IntRange("len", 0, maxLen)}
		all = append(all, next)
	}
	fs := parsley.NewFileSet(all...)
	rt.Assert(real.Len() == len(data), "normalised-length")
	c := rt.Choose("cursor", len(data)+1)
	gp := real.Pos(c)
	rt.Assert(int(gp) == base+c, "file-pos")
	res := fs.Position(gp)
	tp, ok := res.(*text.Position)
	if !ok {
		rt.Fail("real-file/not-attributed", "a position of the real file was not attributed to it")
		return
	}
	wl, wc := lineCol(data, c)
	rt.ObsInt("line", tp.Line)
	rt.ObsInt("column", tp.Column)
	rt.Assert(tp.Filename == "real.txt", "real-file/name")
	rt.Assert(tp.Line == wl, "real-file/line")
	rt.Assert(tp.Column == wc, "real-file/column")
	rt.Assert(res.String() == "real.txt:"+itoa(wl)+":"+itoa(wc), "real-file/string")
	if wl > 1 {
		rt.Cover("position on a later line")
	}
	if c == len(data) {
		rt.Cover("end-of-file position of the real file")
		if next != nil {
			rt.Assert(len(next.asked) == 0, "real-file/eof-not-attributed-to-next")
		}
	}
	// the file alone maps its own offsets the same way, and refuses offsets past its end
	p2 := real.Position(c)
	if tp2, ok := p2.(*text.Position); !ok || tp2.Line != wl || tp2.Column != wc {
		rt.Fail("file-position", "File.Position disagrees with the reference")
		return
	}
	rt.Assert(real.Position(len(data)+1) == parsley.NilPosition, "file-position/past-end")
}

// C11_ManyLines: a file of K lines (lengths 0..3, line ends LF or CRLF in a
// fixed pattern, one symbolic byte in the middle line), after a file of
// symbolic length: line and column of every offset.
func C11_ManyLines() {
	k := rt.Param("K", 40)
	var raw []byte
	for i := 0; i < k; i++ {
		for j := 0; j < (i*7)%4; j++ {
			raw = append(raw, 'x')
		}
		if i == k/2 {
			raw = append(raw, rt.Byte("in"))
		}
		if i%3 == 1 {
			raw = append(raw, '\r')
		}
		if i < k-1 || k%2 == 0 {
			raw = append(raw, '\n')
		}
	}
	var data []byte
	for i := 0; i < len(raw); i++ {
		if raw[i] == '\r' && i+1 < len(raw) && raw[i+1] == '\n' {
			continue
		}
		data = append(data, raw[i])
	}
	cp := make([]byte, len(raw))
	copy(cp, raw)
	real := text.NewFile("real.txt", cp)
	first := &fakeFile{name: "first", length: rt.IntRange("len", 0, maxLen)}
	fs := parsley.NewFileSet(first, real)
	base := 1 + first.length + 1
	rt.Assert(real.Len() == len(data), "many-lines/normalised-length")
	c := rt.Choose("cursor", len(data)+1)
	res := fs.Position(parsley.Pos(base + c))
	tp, ok := res.(*text.Position)
	if !ok {
		rt.Fail("many-lines/not-attributed", "")
		return
	}
	wl, wc := lineCol(data, c)
	rt.ObsInt("line", tp.Line)
	rt.ObsInt("column", tp.Column)
	rt.Assert(tp.Line == wl, "many-lines/line")
	rt.Assert(tp.Column == wc, "many-lines/column")
	if wl > 32 {
		rt.Cover("position beyond line 32")
	}
}

// C11_ManyFiles: K files (three of symbolic length), a symbolic global position: it
// is attributed to the one file whose range contains it, at the right offset.
func C11_ManyFiles() {
	k := rt.Param("KF", 12)
	files := make([]*fakeFile, k)
	var all []parsley.File
	want := rt.Choose("file", k)
	for i := range files {
		// symbolic length for the first file, the one asked about and its
		// predecessor; the others have small concrete lengths
		if i == 0 || i == want || i+1 == want {
			files[i] = &fakeFile{name: "f" + itoa(i), length: rt.IntRange("len", 0, maxLen)}
		} else {
			files[i] = &fakeFile{name: "f" + itoa(i), length: (i * 5) % 7}
		}
		all = append(all, files[i])
	}
	fs := parsley.NewFileSet(all...)
	base := 1
	for i := 0; i < want; i++ {
		base += files[i].length + 1
	}
	off := rt.IntRange("off", 0, maxLen)
	rt.Assume(off <= files[want].length)
	fs.Position(parsley.Pos(base + off))
	for i, f := range files {
		if i == want {
			rt.Assert(len(f.asked) == 1 && f.asked[0] == off, "many-files/attributed")
		} else {
			rt.Assert(len(f.asked) == 0, "many-files/not-attributed-elsewhere")
		}
	}
	if want >= 8 {
		rt.Cover("position in the ninth or a later file")
	}
}
