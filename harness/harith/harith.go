// Package harith: harnesses for C05 (left-recursive arithmetic evaluates like
// a reference evaluator) and the grammar shared with C12/C14.
package harith

import (
	"github.com/opsidian/parsley/ast"
	"github.com/opsidian/parsley/ast/interpreter"
	"github.com/opsidian/parsley/combinator"
	"github.com/opsidian/parsley/parser"
	"github.com/opsidian/parsley/parsley"
	"github.com/opsidian/parsley/text"
	"github.com/opsidian/parsley/text/terminal"

	"vh/rt"
)

func init() {
	rt.Register("C05_ArithFree", C05_ArithFree)
	rt.Register("C05_ArithSkeleton", C05_ArithSkeleton)
	rt.Register("C05_ArithLongChain", C05_ArithLongChain)
	rt.Register("C05_ArithBlankLines", C05_ArithBlankLines)
}

// binop evaluates  left op right  on int64; division by zero is an
// interpreter error located at the operator.
var binop = ast.InterpreterFunc(func(userCtx interface{}, node parsley.NonTerminalNode) (interface{}, parsley.Error) {
	ch := node.Children()
	l, err := parsley.EvaluateNode(userCtx, ch[0])
	if err != nil {
		return nil, err
	}
	r, err := parsley.EvaluateNode(userCtx, ch[2])
	if err != nil {
		return nil, err
	}
	a, b := l.(int64), r.(int64)
	switch ch[1].Token() {
	case "+":
		return a + b, nil
	case "-":
		return a - b, nil
	case "*":
		return a * b, nil
	}
	if b == 0 {
		return nil, parsley.NewErrorf(ch[1].Pos(), "division by zero")
	}
	return a / b, nil
})

func tok(c rune) parsley.Parser { return text.LeftTrim(terminal.Rune(c), text.WsSpacesNl) }

// NewParser builds the classic left-recursive grammar with the real library:
//   expr   -> expr (+|-) term | term
//   term   -> term (*|/) factor | factor
//   factor -> integer | ( expr )
// every token may be preceded by spaces, tabs and line breaks.
func NewParser() parsley.Parser {
	var expr, term, factor parser.Func
	expr = combinator.Memoize(combinator.Any(
		combinator.SeqOf(&expr, combinator.Choice(tok('+'), tok('-')), &term).Bind(binop),
		&term,
	))
	term = combinator.Memoize(combinator.Any(
		combinator.SeqOf(&term, combinator.Choice(tok('*'), tok('/')), &factor).Bind(binop),
		&factor,
	))
	factor = combinator.Memoize(combinator.Any(
		text.LeftTrim(terminal.Integer("int"), text.WsSpacesNl),
		combinator.SeqOf(tok('('), &expr, tok(')')).Bind(interpreter.Select(1)),
	))
	return combinator.Sentence(text.RightTrim(&expr, text.WsSpacesNl))
}

// ---- reference evaluator (two passes: syntax, then evaluation) ----

type node struct {
	op          byte // 0: literal
	opPos       int
	l, r        *node
	lit         []byte
	neg         bool
}

type refParser struct {
	in      []byte
	p       int
	noClaim bool
	bad     bool
}

func isWs(b byte) bool    { return b == ' ' || b == '\t' || b == '\n' || b == '\f' }
func isDigit(b byte) bool { return b >= '0' && b <= '9' }

func (r *refParser) ws() {
	for r.p < len(r.in) && isWs(r.in[r.p]) {
		r.p++
	}
}

func (r *refParser) expr() *node {
	n := r.term()
	for n != nil {
		save := r.p
		r.ws()
		if r.p < len(r.in) && (r.in[r.p] == '+' || r.in[r.p] == '-') {
			op, at := r.in[r.p], r.p
			r.p++
			rhs := r.term()
			if rhs == nil {
				return nil
			}
			n = &node{op: op, opPos: at, l: n, r: rhs}
			continue
		}
		r.p = save
		break
	}
	return n
}

func (r *refParser) term() *node {
	n := r.factor()
	for n != nil {
		save := r.p
		r.ws()
		if r.p < len(r.in) && (r.in[r.p] == '*' || r.in[r.p] == '/') {
			op, at := r.in[r.p], r.p
			r.p++
			rhs := r.factor()
			if rhs == nil {
				return nil
			}
			n = &node{op: op, opPos: at, l: n, r: rhs}
			continue
		}
		r.p = save
		break
	}
	return n
}

func (r *refParser) factor() *node {
	r.ws()
	if r.p >= len(r.in) {
		r.bad = true
		return nil
	}
	if r.in[r.p] == '(' {
		r.p++
		n := r.expr()
		if n == nil {
			return nil
		}
		r.ws()
		if r.p >= len(r.in) || r.in[r.p] != ')' {
			r.bad = true
			return nil
		}
		r.p++
		return n
	}
	i := r.p
	neg := false
	if r.in[i] == '+' || r.in[i] == '-' {
		neg = r.in[i] == '-'
		i++
	}
	if i >= len(r.in) || !isDigit(r.in[i]) {
		r.bad = true
		return nil
	}
	j := i
	for j < len(r.in) && isDigit(r.in[j]) {
		j++
	}
	// zones the reference does not model: leading zeros / octal / hex, the
	// '.' look-ahead of Integer, literals of 19 digits and more
	if r.in[i] == '0' && (j > i+1 || (j < len(r.in) && (r.in[j] == 'x' || r.in[j] == 'X'))) {
		r.noClaim = true
	}
	if j < len(r.in) && r.in[j] == '.' {
		r.noClaim = true
	}
	if j-i > 18 {
		r.noClaim = true
	}
	r.p = j
	return &node{lit: r.in[i:j], neg: neg}
}

type evalErr struct {
	pos int
}

func eval(n *node) (int64, *evalErr) {
	if n.op == 0 {
		var v int64
		for _, d := range n.lit {
			v = v*10 + int64(d-'0')
		}
		if n.neg {
			v = -v
		}
		return v, nil
	}
	a, e := eval(n.l)
	if e != nil {
		return 0, e
	}
	b, e := eval(n.r)
	if e != nil {
		return 0, e
	}
	switch n.op {
	case '+':
		return a + b, nil
	case '-':
		return a - b, nil
	case '*':
		return a * b, nil
	}
	if b == 0 {
		return 0, &evalErr{n.opPos}
	}
	return a / b, nil
}

func lineCol(in []byte, q int) (int, int) {
	line, col := 1, 1
	for i := 0; i < q && i < len(in); i++ {
		if in[i] == '\n' {
			line++
			col = 1
		} else {
			col++
		}
	}
	return line, col
}

func itoa(n int) string {
	if n == 0 {
		return "0"
	}
	s := ""
	for n > 0 {
		s = string(rune('0'+n%10)) + s
		n /= 10
	}
	return s
}

func show(in []byte) string {
	s := ""
	for _, c := range in {
		switch {
		case c == '\n':
			s += "\\n"
		case c >= 0x20 && c < 0x7f:
			s += string(rune(c))
		default:
			s += "?"
		}
	}
	return s
}

// Check compares Evaluate with the reference on input in.
func Check(in []byte) {
	cp := make([]byte, len(in))
	copy(cp, in)
	f := text.NewFile("f", cp)
	fs := parsley.NewFileSet(f)
	ctx := parsley.NewContext(fs, text.NewReader(f))
	v, err := parsley.Evaluate(ctx, NewParser())
	rt.ObsBool("accepted", err == nil)
	if (v == nil) == (err == nil) {
		rt.Fail("value-xor-error", show(in))
		return
	}
	r := &refParser{in: in}
	tree := r.expr()
	if tree != nil {
		r.ws()
		if r.p != len(r.in) {
			tree = nil
		}
	}
	if r.noClaim {
		return
	}
	if tree == nil {
		rt.Cover("ill-formed input")
		if err == nil {
			rt.Fail("accepts-ill-formed", show(in))
		}
		return
	}
	rt.Cover("well-formed input")
	want, ee := eval(tree)
	if ee != nil {
		rt.Cover("division by zero")
		if err == nil {
			rt.Fail("division-by-zero-not-reported", show(in))
			return
		}
		l, c := lineCol(in, ee.pos)
		wantText := "division by zero at f:" + itoa(l) + ":" + itoa(c)
		if err.Error() != wantText {
			rt.Fail("division-by-zero-location", show(in)+": "+err.Error()+", expected "+wantText)
		}
		return
	}
	if err != nil {
		rt.Fail("rejects-well-formed", show(in)+": "+err.Error())
		return
	}
	got, ok := v.(int64)
	if !ok {
		rt.Fail("value-type", show(in))
		return
	}
	rt.ObsInt("value", int(got))
	if tree.op != 0 {
		rt.Cover("expression with an operator")
	}
	rt.Assert(got == want, "value")
}

// C05_ArithFree: every byte string of length <= N.
func C05_ArithFree() {
	n := rt.Choose("n", rt.Param("N", 3)+1)
	in := make([]byte, n)
	for i := range in {
		in[i] = rt.Byte("in")
		rt.Assume(in[i] != '\r')
	}
	Check(in)
}

// C05_ArithSkeleton: D o D o D [o D] with D one or two symbolic digits, o a
// symbolic operator, an optional symbolic whitespace byte in every gap, and
// an optional pair of parentheses around a sub-expression.
func C05_ArithSkeleton() {
	operands := 2 + rt.Choose("operands", rt.Param("operands", 2))
	paren := rt.Choose("paren", operands) // 0: none; k: parenthesise operands k..k+1 (1-based)
	var in []byte
	digit := func(first bool) byte {
		b := rt.Byte("in")
		rt.Assume(b >= '0' && b <= '9')
		return b
	}
	ws := func() {
		if rt.Param("gaps", 1) == 1 && rt.Choose("ws", 2) == 1 {
			b := rt.Byte("in")
			rt.Assume(b == ' ' || b == '\n' || b == '\t' || b == '\f')
			in = append(in, b)
		}
	}
	for k := 1; k <= operands; k++ {
		if k > 1 {
			ws()
			o := rt.Byte("in")
			rt.Assume(o == '+' || o == '-' || o == '*' || o == '/')
			in = append(in, o)
			ws()
		}
		if paren == k && k < operands {
			in = append(in, '(')
		}
		if rt.Choose("sign", rt.Param("signs", 1)+1) == 1 {
			in = append(in, '-')
		}
		nd := 1 + rt.Choose("digits", rt.Param("maxdigits", 2))
		for d := 0; d < nd; d++ {
			in = append(in, digit(d == 0))
		}
		if paren != 0 && paren+1 == k {
			in = append(in, ')')
		}
	}
	Check(in)
}

// C05_ArithLongChain: a flat chain of L one-digit operands on one precedence
// level (a left-recursive rule re-entered L times at one position), with the
// first and last digit, the middle operator and the last operator symbolic.
func C05_ArithLongChain() {
	l := rt.Param("L", 104)
	level := rt.Choose("level", rt.Param("levels", 3)) // + chain, * chain, chain in parentheses
	digit := func() byte {
		b := rt.Byte("in")
		rt.Assume(b >= '0' && b <= '9')
		return b
	}
	var in []byte
	if level == 2 {
		in = append(in, '2', '*', '(')
	}
	for k := 0; k < l; k++ {
		if k > 0 {
			switch {
			case k == l/2 && rt.Param("mid", 1) == 1 || k == l-1:
				o := rt.Byte("in")
				if level == 1 {
					rt.Assume(o == '*' || o == '/')
				} else {
					rt.Assume(o == '+' || o == '-' || o == '*' || o == '/')
				}
				in = append(in, o)
			case level == 1:
				in = append(in, '*')
			default:
				in = append(in, '+')
			}
		}
		if k == 0 || k == l-1 {
			in = append(in, digit())
		} else {
			in = append(in, '1')
		}
	}
	if level == 2 {
		in = append(in, ')')
	}
	rt.Cover("long flat chain")
	Check(in)
}

// C05_ArithBlankLines: operands and operators separated by fixed whitespace
// with blank lines (two line feeds in a row, a leading line feed), digits and
// operators symbolic: the reported line:column of a division by zero behind a
// blank line.
func C05_ArithBlankLines() {
	digit := func() byte {
		b := rt.Byte("in")
		rt.Assume(b >= '0' && b <= '9')
		return b
	}
	op := func() byte {
		o := rt.Byte("in")
		rt.Assume(o == '+' || o == '-' || o == '*' || o == '/')
		return o
	}
	var in []byte
	if rt.Choose("lead", 2) == 1 {
		in = append(in, '\n')
	}
	in = append(in, digit())
	in = append(in, " \n\n"...)
	in = append(in, op(), ' ', digit())
	if rt.Choose("operands", 2) == 1 {
		in = append(in, "\n\n\n  "...)
		in = append(in, op(), '\n', digit())
	}
	rt.Cover("blank line between tokens")
	Check(in)
}
