// Package rt is the harness runtime API.
//
// Under the symbolic engine (gosym) every function here is an intrinsic: the
// bodies below are never executed. Natively (replay of solver models and
// validation of the engine against the real build) the bodies read the
// recorded input vector and record observations.
package rt

import (
	"fmt"
	"strconv"
)

// Run is the state of one native replay.
type Run struct {
	enum    *enumState
	Vals    [][2]interface{} // name, value in call order
	Params  map[string]int
	idx     int
	Digest  []string
	Covers  []string
	Desync  string
	ExpectP bool
}

var cur *Run

// Outcome of a native run.
type Outcome struct {
	Result string   `json:"result"` // ok, violation, panic, assume-failed, desync
	Assert string   `json:"assert,omitempty"`
	Detail string   `json:"detail,omitempty"`
	Digest []string `json:"digest"`
	Covers []string `json:"covers,omitempty"`
}

type assertFailed struct{ id, detail string }
type assumeFailed struct{}

var registry = map[string]func(){}

// Register makes a harness available to the native replay command.
func Register(name string, f func()) { registry[name] = f }

// Lookup returns a registered harness.
func Lookup(name string) func() { return registry[name] }

// Execute runs harness f natively on the given vector.
func Execute(f func(), vals [][2]interface{}, params map[string]int) (out Outcome) {
	return executeWith(f, &Run{Vals: vals, Params: params})
}

var runID int

// RunID identifies the current native run (harness packages use it to reset
// per-run state; under the engine package variables are fresh on every path
// and RunID is constant).
func RunID() int { return runID }

func executeWith(f func(), run *Run) (out Outcome) {
	runID++
	cur = run
	defer func() {
		out.Digest = cur.Digest
		out.Covers = cur.Covers
		if r := recover(); r != nil {
			switch x := r.(type) {
			case assertFailed:
				out.Result, out.Assert, out.Detail = "violation", x.id, x.detail
			case assumeFailed:
				out.Result = "assume-failed"
			default:
				if cur.ExpectP {
					out.Result = "ok"
					out.Detail = "expected panic: " + fmt.Sprint(r)
				} else {
					out.Result, out.Assert, out.Detail = "panic", "no-panic", fmt.Sprint(r)
				}
			}
		}
		if cur.Desync != "" && out.Result == "" {
			out.Result, out.Detail = "desync", cur.Desync
		}
		if out.Result == "" {
			out.Result = "ok"
		}
	}()
	f()
	return
}

// enumState drives exhaustive native enumeration over small domains.
type enumState struct {
	prefix []int // index into the domain of each request so far
	sizes  []int // domain size of each request of the current run
	alpha  []byte
	ints   []int64
	trace  [][2]interface{}
}

func (e *enumState) pick(name string, dom []int64) int64 {
	i := len(e.sizes)
	e.sizes = append(e.sizes, len(dom))
	k := 0
	if i < len(e.prefix) {
		k = e.prefix[i]
	}
	v := dom[k]
	e.trace = append(e.trace, [2]interface{}{name, v})
	return v
}

func rangeDom(k int) []int64 {
	d := make([]int64, k)
	for i := range d {
		d[i] = int64(i)
	}
	return d
}

// Enumerate runs f natively on every combination of values from small
// domains: bytes from alphabet, integers from ints, Choose(k) from 0..k-1.
// It is used to validate oracles against the real build by brute force.
func Enumerate(f func(), params map[string]int, alphabet []byte, ints []int64, maxRuns int, report func(vec [][2]interface{}, out Outcome)) int {
	stack := [][]int{{}}
	runs := 0
	for len(stack) > 0 && (maxRuns <= 0 || runs < maxRuns) {
		pre := stack[len(stack)-1]
		stack = stack[:len(stack)-1]
		st := &enumState{prefix: pre, alpha: alphabet, ints: ints}
		out := executeWith(f, &Run{Params: params, enum: st})
		runs++
		report(st.trace, out)
		for pos := len(st.sizes) - 1; pos >= len(pre); pos-- {
			for alt := st.sizes[pos] - 1; alt >= 1; alt-- {
				np := make([]int, pos+1)
				copy(np, pre)
				np[pos] = alt
				stack = append(stack, np)
			}
		}
	}
	return runs
}

func next(name string) int64 {
	if cur == nil {
		panic("rt: nondeterministic input requested outside a replay")
	}
	if cur.enum != nil {
		panic("rt: untyped request in enumeration mode")
	}
	if cur.idx >= len(cur.Vals) {
		cur.idx++
		return 0
	}
	e := cur.Vals[cur.idx]
	cur.idx++
	if n, ok := e[0].(string); ok {
		// names carry a "#k" suffix added by the engine
		base := n
		for i := len(n) - 1; i >= 0; i-- {
			if n[i] == '#' {
				base = n[:i]
				break
			}
		}
		if base != name && cur.Desync == "" {
			cur.Desync = fmt.Sprintf("vector entry %d is %q, harness asked for %q", cur.idx-1, n, name)
		}
	}
	switch v := e[1].(type) {
	case float64:
		return int64(v)
	case int64:
		return v
	case int:
		return int64(v)
	case string:
		x, _ := strconv.ParseInt(v, 10, 64)
		return x
	}
	return 0
}

func byteDom(e *enumState) []int64 {
	d := make([]int64, len(e.alpha))
	for i, b := range e.alpha {
		d[i] = int64(b)
	}
	return d
}

func Byte(name string) byte {
	if cur != nil && cur.enum != nil {
		return byte(cur.enum.pick(name, byteDom(cur.enum)))
	}
	return byte(next(name))
}
func Int(name string) int {
	if cur != nil && cur.enum != nil {
		return int(cur.enum.pick(name, cur.enum.ints))
	}
	return int(next(name))
}
func Int64(name string) int64 {
	if cur != nil && cur.enum != nil {
		return cur.enum.pick(name, cur.enum.ints)
	}
	return next(name)
}
func Rune(name string) rune {
	if cur != nil && cur.enum != nil {
		return rune(cur.enum.pick(name, append([]int64{0x41, 0xE9, 0x20AC, 0x1F600, 0xFFFD}, byteDom(cur.enum)...)))
	}
	return rune(next(name))
}
func Bool(name string) bool {
	if cur != nil && cur.enum != nil {
		return cur.enum.pick(name, []int64{0, 1}) == 1
	}
	return next(name)&1 == 1
}

// IntRange is a symbolic int assumed to lie in [lo,hi].
func IntRange(name string, lo, hi int) int {
	if cur != nil && cur.enum != nil {
		dom := []int64{int64(lo)}
		for _, x := range []int64{int64(lo) + 1, int64(lo) + 7, int64(hi)} {
			if x > int64(lo) && x <= int64(hi) {
				dom = append(dom, x)
			}
		}
		return int(cur.enum.pick(name, dom))
	}
	v := int(next(name))
	if v < lo || v > hi {
		panic(assumeFailed{})
	}
	return v
}

// Choose forks k ways (concrete under the engine).
func Choose(name string, k int) int {
	if cur != nil && cur.enum != nil {
		if k <= 1 {
			return 0
		}
		return int(cur.enum.pick(name, rangeDom(k)))
	}
	v := int(next(name))
	if v < 0 || v >= k {
		if k <= 1 {
			return 0
		}
		panic(assumeFailed{})
	}
	return v
}

// Param reads a bound set by the check configuration.
func Param(name string, def int) int {
	if cur != nil {
		if v, ok := cur.Params[name]; ok {
			return v
		}
	}
	return def
}

func Assume(c bool) {
	if !c {
		panic(assumeFailed{})
	}
}

// Assert states the property.
func Assert(c bool, id string) {
	if !c {
		panic(assertFailed{id, ""})
	}
}

// Fail is Assert(false) with a detail message.
func Fail(id string, detail string) { panic(assertFailed{id, detail}) }

func Cover(id string) {
	if cur != nil {
		cur.Covers = append(cur.Covers, id)
	}
}

func ObsInt(tag string, v int) {
	cur.Digest = append(cur.Digest, tag+"="+strconv.Itoa(v))
}
func ObsStr(tag string, s string) {
	cur.Digest = append(cur.Digest, tag+"="+strconv.Quote(s))
}
func ObsBool(tag string, b bool) {
	cur.Digest = append(cur.Digest, tag+"="+strconv.FormatBool(b))
}

// Note attaches a human-readable description of the case to samples.
func Note(s string) {}

// Epoch starts watching stores into objects allocated before this call.
func Epoch() {}

// ForeignStores is the number of such stores so far (always 0 natively).
func ForeignStores() int { return 0 }

// AtomicOps is the number of sync/atomic operations executed so far on this
// path (under the engine; 0 natively).
func AtomicOps() int { return 0 }

// ExpectPanic declares that a Go panic from here on is the expected outcome.
func ExpectPanic() {
	if cur != nil {
		cur.ExpectP = true
	}
}

func PermuteMaps(on bool) {}

// Symbolic reports whether the harness runs under the engine.
func Symbolic() bool { return false }

// Concretize forces a concrete value (fork under the engine).
func Concretize(v int) int { return v }

// IsConcrete reports whether v is a concrete value under the engine.
func IsConcrete(v int) bool { return true }
