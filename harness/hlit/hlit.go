package hlit

import (
	"strconv"
	"time"

	"github.com/opsidian/parsley/data"
	"github.com/opsidian/parsley/parsley"
	"github.com/opsidian/parsley/text"
	"github.com/opsidian/parsley/text/terminal"

	"vh/rt"
)

func init() {
	rt.Register("C08_Integer", C08_Integer)
	rt.Register("C08_IntegerLong", C08_IntegerLong)
	rt.Register("C08_Float", C08_Float)
	rt.Register("C08_Duration", C08_Duration)
	rt.Register("C08_String", C08_String)
	rt.Register("C08_Char", C08_Char)
	rt.Register("C08_QuotedSkeleton", C08_QuotedSkeleton)
	rt.Register("C08_StringLong", C08_StringLong)
	rt.Register("C08_NumberSkeleton", C08_NumberSkeleton)
	rt.Register("C08_Words", C08_Words)
	rt.Register("C08_Regexp", C08_Regexp)
}

type env struct {
	d    []byte
	c    int
	ctx  *parsley.Context
	base int
}

// setup: n <= N symbolic bytes (all 256 values; CRLF pairs excluded because
// NewFile folds them, which C09/C11 cover) and a start offset c in [0,n].
func setup(maxN int) *env {
	n := rt.Choose("n", maxN+1)
	d := make([]byte, n)
	for i := range d {
		d[i] = rt.Byte("in")
		if i > 0 {
			rt.Assume(!(d[i-1] == '\r' && d[i] == '\n'))
		}
	}
	return mkEnv(d, rt.Choose("start", n+1))
}

func mkEnv(d []byte, c int) *env {
	cp := make([]byte, len(d))
	copy(cp, d)
	f := text.NewFile("f", cp)
	fs := parsley.NewFileSet(f)
	rd := text.NewReader(f)
	return &env{d: d, c: c, ctx: parsley.NewContext(fs, rd), base: int(rd.Pos(0))}
}

// parse applies p at the offset — twice: a parser must not disturb the input
// it reads, so the second application on the same file and reader has to give
// the same node (span, value) or the same error.
func (e *env) parse(p parsley.Parser) (parsley.Node, parsley.Error) {
	n, _, err := p.Parse(e.ctx, data.EmptyIntMap, parsley.Pos(e.base+e.c))
	n2, _, err2 := p.Parse(e.ctx, data.EmptyIntMap, parsley.Pos(e.base+e.c))
	if (n == nil) != (n2 == nil) || (err == nil) != (err2 == nil) {
		rt.Fail("reapplication/outcome-differs", "the second application at the same offset behaves differently")
		return n, err
	}
	if n != nil {
		if n.Pos() != n2.Pos() || n.ReaderPos() != n2.ReaderPos() || n.Token() != n2.Token() {
			rt.Fail("reapplication/node-differs", "")
			return n, err
		}
		l1, ok1 := n.(parsley.LiteralNode)
		l2, ok2 := n2.(parsley.LiteralNode)
		if ok1 && ok2 && l1.Value() != l2.Value() {
			rt.Fail("reapplication/value-differs", "the second application at the same offset decodes a different value")
			return n, err
		}
	}
	if err != nil && (err.Pos() != err2.Pos() || err.Error() != err2.Error()) {
		rt.Fail("reapplication/error-differs", "")
	}
	return n, err
}

// common: exactly one of node / error; an error lies between the offset and
// the end of input; a node starts at the offset and ends inside the input.
func (e *env) common(id string, node parsley.Node, err parsley.Error) bool {
	rt.ObsBool(id+".node", node != nil)
	if (node == nil) == (err == nil) {
		rt.Fail(id+"/node-xor-error", "")
		return false
	}
	if err != nil {
		rt.ObsInt(id+".errpos", int(err.Pos())-e.base)
		rt.Assert(int(err.Pos()) >= e.base+e.c && int(err.Pos()) <= e.base+len(e.d), id+"/error-position-in-range")
		return false
	}
	rt.ObsInt(id+".end", int(node.ReaderPos())-e.base)
	rt.Assert(int(node.Pos()) == e.base+e.c, id+"/node-starts-at-offset")
	rt.Assert(int(node.ReaderPos()) > e.base+e.c && int(node.ReaderPos()) <= e.base+len(e.d), id+"/node-ends-inside-input")
	return true
}

func (e *env) endsAt(id string, node parsley.Node, length int) bool {
	if int(node.ReaderPos()) != e.base+e.c+length {
		rt.Fail(id+"/end-after-longest-literal", "the node ends at "+strconv.Itoa(int(node.ReaderPos())-e.base)+", the literal at "+strconv.Itoa(e.c+length))
		return false
	}
	return true
}

// C08_Integer
func C08_Integer() {
	e := setup(rt.Param("N", 4))
	node, err := e.parse(terminal.Integer("int"))
	if !e.common("int", node, err) {
		return
	}
	s := specInteger(e.d, e.c)
	if !s.ok {
		rt.Fail("int/node-without-literal", "")
		return
	}
	rt.Cover("integer literal accepted")
	if !e.endsAt("int", node, s.length) {
		return
	}
	v, ok := node.(parsley.LiteralNode).Value().(int64)
	if !ok {
		rt.Fail("int/value-type", "")
		return
	}
	m := s.magnitude(e.d)
	want := int64(m)
	if s.neg {
		want = -want
	}
	if s.base != 10 {
		rt.Cover("hex or octal literal")
	}
	rt.ObsInt("int.value", int(v))
	rt.Assert(v == want, "int/value")
}

// C08_IntegerLong: sign? + 17..19 symbolic decimal digits + at most one more
// byte: the int64 boundary.
func C08_IntegerLong() {
	// variants: sign (0 none, 1 '-', 2 '+') x optional trailing non-digit byte
	var signed, tail int
	if rt.Param("allvariants", 0) == 1 {
		signed = rt.Choose("sign", 3)
		tail = rt.Choose("tail", 2)
	} else {
		switch rt.Choose("variant", 3) {
		case 1:
			signed = 1
		case 2:
			signed, tail = 2, 1
		}
	}
	mind := rt.Param("mindigits", 19)
	nd := mind + rt.Choose("digits", rt.Param("maxdigits", 19)+1-mind)
	var d []byte
	if signed == 1 {
		d = append(d, '-')
	} else if signed == 2 {
		d = append(d, '+')
	}
	for i := 0; i < nd; i++ {
		b := rt.Byte("in")
		rt.Assume(b >= '0' && b <= '9')
		if i == 0 {
			rt.Assume(b != '0')
		}
		d = append(d, b)
	}
	if tail == 1 {
		b := rt.Byte("in")
		rt.Assume(!isDigit(b))
		d = append(d, b)
	}
	e := mkEnv(d, 0)
	node, err := e.parse(terminal.Integer("int"))
	s := specInteger(e.d, 0)
	if !e.common("long", node, err) {
		return
	}
	if !s.ok {
		rt.Fail("long/node-without-literal", "")
		return
	}
	if !e.endsAt("long", node, s.length) {
		return
	}
	m := s.magnitude(e.d)
	v := node.(parsley.LiteralNode).Value().(int64)
	rt.ObsInt("long.value", int(v))
	if s.neg {
		rt.Assert(m <= 1<<63, "long/accepted-out-of-range")
		rt.Assert(v == -int64(m), "long/value")
	} else {
		rt.Assert(m <= 1<<63-1, "long/accepted-out-of-range")
		rt.Assert(v == int64(m), "long/value")
	}
	rt.Cover("19-digit literal accepted")
}

// C08_NumberSkeleton: float and duration literals deeper than the free inputs
// reach: sign? D '.' D followed by three free bytes (exponent marker, exponent
// sign, digit or anything else), and D u u D u with free unit bytes.
func C08_NumberSkeleton() {
	digit := func() byte {
		b := rt.Byte("in")
		rt.Assume(isDigit(b))
		return b
	}
	var d []byte
	if rt.Choose("kind", 2) == 0 {
		if rt.Choose("sign", 2) == 1 {
			d = append(d, '-')
		}
		d = append(d, digit(), '.', digit(), rt.Byte("in"), rt.Byte("in"), rt.Byte("in"))
		if rt.Choose("tail", 2) == 1 {
			d = append(d, digit())
		}
		for i := 1; i < len(d); i++ {
			rt.Assume(!(d[i-1] == '\r' && d[i] == '\n'))
		}
		checkFloat(mkEnv(d, 0))
		return
	}
	d = append(d, digit(), rt.Byte("in"), rt.Byte("in"), digit(), rt.Byte("in"))
	for i := 1; i < len(d); i++ {
		rt.Assume(!(d[i-1] == '\r' && d[i] == '\n'))
	}
	checkDuration(mkEnv(d, 0))
}

// C08_Float: the value is strconv.ParseFloat applied to exactly the lexeme.
func C08_Float() {
	checkFloat(setup(rt.Param("N", 4)))
}

func checkFloat(e *env) {
	node, err := e.parse(terminal.Float("float"))
	if !e.common("float", node, err) {
		return
	}
	l := floatLen(e.d, e.c)
	if l < 0 {
		rt.Fail("float/node-without-literal", "")
		return
	}
	rt.Cover("float literal accepted")
	if !e.endsAt("float", node, l) {
		return
	}
	v, ok := node.(parsley.LiteralNode).Value().(float64)
	if !ok {
		rt.Fail("float/value-type", "")
		return
	}
	want, cerr := strconv.ParseFloat(string(e.d[e.c:e.c+l]), 64)
	if cerr != nil {
		rt.Fail("float/accepted-a-conversion-error", "")
		return
	}
	rt.Assert(v == want, "float/value")
}

// C08_Duration: the value is time.ParseDuration applied to exactly the lexeme.
func C08_Duration() {
	checkDuration(setup(rt.Param("N", 4)))
}

func checkDuration(e *env) {
	node, err := e.parse(terminal.TimeDuration("dur"))
	if !e.common("dur", node, err) {
		return
	}
	l := durationLen(e.d, e.c)
	if l < 0 {
		rt.Fail("dur/node-without-literal", "")
		return
	}
	rt.Cover("duration literal accepted")
	if !e.endsAt("dur", node, l) {
		return
	}
	v, ok := node.(parsley.LiteralNode).Value().(time.Duration)
	if !ok {
		rt.Fail("dur/value-type", "")
		return
	}
	want, cerr := time.ParseDuration(string(e.d[e.c : e.c+l]))
	if cerr != nil {
		rt.Fail("dur/accepted-a-conversion-error", "")
		return
	}
	rt.Assert(v == want, "dur/value")
}

func sameBytes(a string, b []byte) bool {
	if len(a) != len(b) {
		return false
	}
	for i := range b {
		if a[i] != b[i] {
			return false
		}
	}
	return true
}

// C08_String: double-quoted (and optionally back-quoted) string literals.
func C08_String() {
	e := setup(rt.Param("N", 4))
	checkString(e, rt.Choose("backquote", 2) == 1)
}

func checkString(e *env, bq bool) {
	node, err := e.parse(terminal.String("string", bq))
	if !e.common("str", node, err) {
		return
	}
	v, ok := node.(parsley.LiteralNode).Value().(string)
	if !ok {
		rt.Fail("str/value-type", "")
		return
	}
	rt.ObsStr("str.value", v)
	if bq && e.d[e.c] == '`' {
		// `...`: everything up to the next back quote, verbatim
		i := e.c + 1
		for i < len(e.d) && e.d[i] != '`' {
			i++
		}
		if i >= len(e.d) {
			rt.Fail("str/node-without-literal", "unterminated raw string accepted")
			return
		}
		if !e.endsAt("str", node, i+1-e.c) {
			return
		}
		rt.Assert(sameBytes(v, e.d[e.c+1:i]), "str/raw-value")
		rt.Cover("raw string accepted")
		return
	}
	s := specString(e.d, e.c)
	if s.noClaim {
		return
	}
	if !s.ok {
		rt.Fail("str/node-without-literal", "")
		return
	}
	rt.Cover("string literal accepted")
	if !e.endsAt("str", node, s.length) {
		return
	}
	if s.noClaimValue {
		return
	}
	if len(v) != len(s.value) {
		rt.Fail("str/value-length", "")
		return
	}
	if len(s.value)+2 != s.length {
		rt.Cover("string with an escape accepted")
	}
	rt.Assert(sameBytes(v, s.value), "str/value")
}

// C08_Char
func C08_Char() {
	checkChar(setup(rt.Param("N", 4)))
}

func checkChar(e *env) {
	node, err := e.parse(terminal.Char("char"))
	if !e.common("char", node, err) {
		return
	}
	s := specChar(e.d, e.c)
	if !s.ok {
		rt.Fail("char/node-without-literal", "")
		return
	}
	rt.Cover("char literal accepted")
	if !e.endsAt("char", node, s.length) {
		return
	}
	v, ok := node.(parsley.LiteralNode).Value().(rune)
	if !ok {
		rt.Fail("char/value-type", "")
		return
	}
	rt.ObsInt("char.value", int(v))
	if s.noClaimValue {
		return
	}
	rt.Assert(v == s.value, "char/value")
}

// C08_Words: Bool, Nil, Word, Op, Rune with fixed construction parameters.
func C08_Words() {
	e := setup(rt.Param("N", 4))
	switch rt.Choose("terminal", 6) {
	case 0:
		node, err := e.parse(terminal.Bool("bool", "true", "no"))
		if !e.common("bool", node, err) {
			return
		}
		v, _ := node.(parsley.LiteralNode).Value().(bool)
		switch {
		case wordAt(e.d, e.c, "true"):
			rt.Assert(v, "bool/value")
			e.endsAt("bool", node, 4)
		case wordAt(e.d, e.c, "no"):
			rt.Assert(!v, "bool/value")
			e.endsAt("bool", node, 2)
			rt.Cover("bool literal accepted")
		default:
			rt.Fail("bool/node-without-literal", "")
		}
	case 1:
		node, err := e.parse(terminal.Nil("nil", "nil"))
		if !e.common("nil", node, err) {
			return
		}
		if !wordAt(e.d, e.c, "nil") {
			rt.Fail("nil/node-without-literal", "")
			return
		}
		e.endsAt("nil", node, 3)
		rt.Assert(node.(parsley.LiteralNode).Value() == nil, "nil/value")
	case 2:
		node, err := e.parse(terminal.Word("kw", "if", 42))
		if !e.common("word", node, err) {
			return
		}
		if !wordAt(e.d, e.c, "if") {
			rt.Fail("word/node-without-literal", "")
			return
		}
		rt.Cover("word accepted")
		e.endsAt("word", node, 2)
		rt.Assert(node.(parsley.LiteralNode).Value() == 42, "word/value")
		rt.Assert(node.Token() == "IF", "word/token")
	case 3:
		node, err := e.parse(terminal.Op("+="))
		if !e.common("op", node, err) {
			return
		}
		if !hasAt(e.d, e.c, "+=") {
			rt.Fail("op/node-without-literal", "")
			return
		}
		e.endsAt("op", node, 2)
		rt.Assert(node.(parsley.LiteralNode).Value() == "+=", "op/value")
	case 4, 5:
		// terminal.Rune over the code points at the edges of every UTF-8 length
		// class (construction needs a concrete rune, so they are enumerated)
		edges := []rune{'a', 0x7f, 0x80, 'é', 0x7ff, 0x800, '€', 0xfffd, 0xffff, 0x10000, 0x1F600, 0x10ffff}
		ch := edges[rt.Choose("rune", len(edges))]
		node, err := e.parse(terminal.Rune(ch))
		if !e.common("rune", node, err) {
			return
		}
		enc := string(ch)
		if !hasAt(e.d, e.c, enc) {
			if ch == 0xfffd {
				return // U+FFFD also stands for an invalid byte: no claim
			}
			rt.Fail("rune/node-without-literal", "")
			return
		}
		if len(enc) > 1 {
			rt.Cover("multi-byte rune accepted")
		}
		e.endsAt("rune", node, len(enc))
		rt.Assert(node.(parsley.LiteralNode).Value() == ch, "rune/value")
	}
}

// C08_Regexp: terminal.Regexp over patterns with hand specifications.
func C08_Regexp() {
	e := setup(rt.Param("N", 4))
	switch rt.Choose("pattern", 5) {
	case 0: // [a-z]+ group 0
		node, err := e.parse(terminal.Regexp("s", "ID", "identifier", `[a-z]+`, 0))
		if !e.common("re0", node, err) {
			return
		}
		n := 0
		for e.c+n < len(e.d) && e.d[e.c+n] >= 'a' && e.d[e.c+n] <= 'z' {
			n++
		}
		if n == 0 {
			rt.Fail("re0/node-without-literal", "")
			return
		}
		rt.Cover("regexp accepted")
		e.endsAt("re0", node, n)
		v, _ := node.(parsley.LiteralNode).Value().(string)
		rt.Assert(sameBytes(v, e.d[e.c:e.c+n]), "re0/value")
	case 1: // a|ab: first match
		node, err := e.parse(terminal.Regexp("s", "X", "a or ab", `a|ab`, 0))
		if !e.common("re1", node, err) {
			return
		}
		if !hasAt(e.d, e.c, "a") {
			rt.Fail("re1/node-without-literal", "")
			return
		}
		e.endsAt("re1", node, 1)
	case 2, 3: // (a)(b)? groups 1 and 2
		g := rt.Choose("group", 2) + 1
		node, err := e.parse(terminal.Regexp("s", "X", "ab", `(a)(b)?`, g))
		if !e.common("re2", node, err) {
			return
		}
		if !hasAt(e.d, e.c, "a") {
			rt.Fail("re2/node-without-literal", "")
			return
		}
		hasB := hasAt(e.d, e.c+1, "b")
		l := 1
		if hasB {
			l = 2
		}
		e.endsAt("re2", node, l)
		v, _ := node.(parsley.LiteralNode).Value().(string)
		want := "a"
		if g == 2 {
			want = ""
			if hasB {
				want = "b"
			}
		}
		rt.Assert(v == want, "re2/group-value")
	case 4: // out-of-range group: the documented panic, and only on a match
		if !hasAt(e.d, e.c, "a") {
			node, err := e.parse(terminal.Regexp("s", "X", "a", `(a)`, 2))
			e.common("re4", node, err)
			return
		}
		rt.ExpectPanic()
		e.parse(terminal.Regexp("s", "X", "a", `(a)`, 2))
		rt.Fail("re4/invalid-group-accepted", "")
	}
}

// C08_QuotedSkeleton: string and char literals with fixed quotes and symbolic
// content: q + 1..S free bytes + q, and every escape family with symbolic
// digits (\xHH, \uHHHH, \UHHHHHHHH, \ooo), optionally followed by one free byte.
func C08_QuotedSkeleton() {
	isStr := rt.Choose("literal", 2) == 0
	q := byte('\'')
	if isStr {
		q = '"'
	}
	free := func() byte { return rt.Byte("in") }
	hexish := func() byte {
		// a decimal digit: one class for the lexers, still a symbolic value
		b := rt.Byte("in")
		rt.Assume(isDigit(b))
		return b
	}
	d := []byte{q}
	// in the escape families at most F of the digits are free bytes (so that
	// invalid digits occur at every position over the runs), the rest are
	// assumed to be decimal digits (symbolic values)
	F := rt.Param("F", 1)
	digits := func(n int) {
		freeAt := rt.Choose("freeat", n)
		for i := 0; i < n; i++ {
			if i >= freeAt && i < freeAt+F {
				d = append(d, free())
			} else {
				d = append(d, hexish())
			}
		}
	}
	fam := rt.Choose("family", 5)
	switch fam {
	case 0:
		n := 1 + rt.Choose("len", rt.Param("S", 4))
		for i := 0; i < n; i++ {
			d = append(d, free())
		}
	case 1:
		d = append(d, '\\', 'x')
		digits(2)
	case 2:
		d = append(d, '\\', 'u')
		digits(4)
	case 3:
		d = append(d, '\\', 'U')
		digits(8)
	case 4:
		d = append(d, '\\')
		digits(3)
	}
	d = append(d, q)
	if fam == 0 && rt.Choose("tail", 2) == 1 {
		d = append(d, free())
	}
	for i := 1; i < len(d); i++ {
		rt.Assume(!(d[i-1] == '\r' && d[i] == '\n'))
	}
	e := mkEnv(d, 0)
	if isStr {
		checkString(e, false)
	} else {
		checkChar(e)
	}
}

// C08_StringLong: a double-quoted literal of W bytes, concrete ASCII except
// for three free bytes: two adjacent ones in the middle and one before the closing
// quote (an escape, a quote, a multi-byte sequence can begin there).
func C08_StringLong() {
	w := rt.Param("W", 100)
	d := []byte{'"'}
	for i := 0; i < w; i++ {
		switch {
		case i == w/2 || i == w/2+1 || i == w-2:
			d = append(d, rt.Byte("in"))
		case i%11 == 5:
			d = append(d, '\\', 'n')
		case i%13 == 7:
			d = append(d, 0xC3, 0xA9) // e-acute
		default:
			d = append(d, 'a'+byte(i%26))
		}
	}
	d = append(d, '"')
	for i := 1; i < len(d); i++ {
		rt.Assume(!(d[i-1] == '\r' && d[i] == '\n'))
	}
	rt.Cover("literal of more than 64 bytes")
	e := mkEnv(d, 0)
	checkString(e, false)
}
