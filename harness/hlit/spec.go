// Package hlit: harnesses for C08 (literal parsers are total and agree with
// Go's conversions) and the hand-written byte-level lexers they are compared
// with. The oracle is one-directional, like the property: an in-range error is
// always acceptable; only a returned node is constrained.
package hlit

func isDigit(b byte) bool { return b >= '0' && b <= '9' }
func isOct(b byte) bool   { return b >= '0' && b <= '7' }
func isHex(b byte) bool {
	return b >= '0' && b <= '9' || b >= 'a' && b <= 'f' || b >= 'A' && b <= 'F'
}
func hexVal(b byte) int {
	switch {
	case b >= '0' && b <= '9':
		return int(b - '0')
	case b >= 'a' && b <= 'f':
		return int(b-'a') + 10
	}
	return int(b-'A') + 10
}

// intSpec describes the integer literal at data[c:].
type intSpec struct {
	ok     bool
	length int
	neg    bool
	base   int
	from   int // first digit (absolute index)
	to     int // one past the last digit
}

// specInteger: sign? ( [1-9][0-9]* | 0[xX]hex+ | 0[0-7]* ), refused when
// directly followed by '.'.
func specInteger(d []byte, c int) intSpec {
	var s intSpec
	i := c
	if i < len(d) && (d[i] == '-' || d[i] == '+') {
		s.neg = d[i] == '-'
		i++
	}
	if i >= len(d) || !isDigit(d[i]) {
		return s
	}
	if d[i] != '0' {
		s.base = 10
		s.from = i
		for i < len(d) && isDigit(d[i]) {
			i++
		}
		s.to = i
	} else if i+2 < len(d) && (d[i+1] == 'x' || d[i+1] == 'X') && isHex(d[i+2]) {
		s.base = 16
		i += 2
		s.from = i
		for i < len(d) && isHex(d[i]) {
			i++
		}
		s.to = i
	} else {
		s.base = 8
		s.from = i
		for i < len(d) && isOct(d[i]) {
			i++
		}
		s.to = i
	}
	if i < len(d) && d[i] == '.' {
		return intSpec{}
	}
	s.ok = true
	s.length = i - c
	return s
}

// magnitude accumulates the digits in uint64 (exact for the sizes used here:
// at most 19 decimal / 15 hex / 21 octal digits are ever passed).
func (s intSpec) magnitude(d []byte) uint64 {
	var v uint64
	for i := s.from; i < s.to; i++ {
		v = v*uint64(s.base) + uint64(hexVal(d[i]))
	}
	return v
}

// floatLen: sign? digits* '.' digits+ ( [eE] sign? digits+ )?   (-1: none)
func floatLen(d []byte, c int) int {
	i := c
	if i < len(d) && (d[i] == '-' || d[i] == '+') {
		i++
	}
	for i < len(d) && isDigit(d[i]) {
		i++
	}
	if i >= len(d) || d[i] != '.' {
		return -1
	}
	i++
	j := i
	for i < len(d) && isDigit(d[i]) {
		i++
	}
	if i == j {
		return -1
	}
	if i < len(d) && (d[i] == 'e' || d[i] == 'E') {
		k := i + 1
		if k < len(d) && (d[k] == '-' || d[k] == '+') {
			k++
		}
		m := k
		for k < len(d) && isDigit(d[k]) {
			k++
		}
		if k > m {
			i = k
		}
	}
	return i - c
}

func hasAt(d []byte, i int, s string) bool {
	if i+len(s) > len(d) {
		return false
	}
	for k := 0; k < len(s); k++ {
		if d[i+k] != s[k] {
			return false
		}
	}
	return true
}

// durationLen: sign? ( digits+ ('.' digits+)? unit )+ with the units tried in
// the order ns us µs μs ms s m h.   (-1: none)
func durationLen(d []byte, c int) int {
	i := c
	if i < len(d) && (d[i] == '-' || d[i] == '+') {
		i++
	}
	units := []string{"ns", "us", "µs", "μs", "ms", "s", "m", "h"}
	count := 0
	for {
		j := i
		for j < len(d) && isDigit(d[j]) {
			j++
		}
		if j == i {
			break
		}
		// the digit run may have to give characters back only if no unit
		// follows; no unit starts with a digit, so greedy is exact
		k := j
		if k < len(d) && d[k] == '.' {
			m := k + 1
			for m < len(d) && isDigit(d[m]) {
				m++
			}
			if m > k+1 {
				// fraction is only kept if a unit follows it
				u := -1
				for _, un := range units {
					if hasAt(d, m, un) {
						u = len(un)
						break
					}
				}
				if u >= 0 {
					i = m + u
					count++
					continue
				}
			}
		}
		u := -1
		for _, un := range units {
			if hasAt(d, k, un) {
				u = len(un)
				break
			}
		}
		if u < 0 {
			break
		}
		i = k + u
		count++
	}
	if count == 0 {
		return -1
	}
	return i - c
}

// ---- UTF-8 (own decoder, no library calls) ----

// utf8Len returns the width of the valid UTF-8 sequence at d[i:], or 0.
func utf8Len(d []byte, i int) int {
	if i >= len(d) {
		return 0
	}
	b0 := d[i]
	cont := func(k int, lo, hi byte) bool { return i+k < len(d) && d[i+k] >= lo && d[i+k] <= hi }
	switch {
	case b0 < 0x80:
		return 1
	case b0 >= 0xC2 && b0 <= 0xDF:
		if cont(1, 0x80, 0xBF) {
			return 2
		}
	case b0 == 0xE0:
		if cont(1, 0xA0, 0xBF) && cont(2, 0x80, 0xBF) {
			return 3
		}
	case b0 >= 0xE1 && b0 <= 0xEC, b0 == 0xEE, b0 == 0xEF:
		if cont(1, 0x80, 0xBF) && cont(2, 0x80, 0xBF) {
			return 3
		}
	case b0 == 0xED:
		if cont(1, 0x80, 0x9F) && cont(2, 0x80, 0xBF) {
			return 3
		}
	case b0 == 0xF0:
		if cont(1, 0x90, 0xBF) && cont(2, 0x80, 0xBF) && cont(3, 0x80, 0xBF) {
			return 4
		}
	case b0 >= 0xF1 && b0 <= 0xF3:
		if cont(1, 0x80, 0xBF) && cont(2, 0x80, 0xBF) && cont(3, 0x80, 0xBF) {
			return 4
		}
	case b0 == 0xF4:
		if cont(1, 0x80, 0x8F) && cont(2, 0x80, 0xBF) && cont(3, 0x80, 0xBF) {
			return 4
		}
	}
	return 0
}

func decodeUTF8(d []byte, i, w int) rune {
	switch w {
	case 1:
		return rune(d[i])
	case 2:
		return rune(d[i]&0x1F)<<6 | rune(d[i+1]&0x3F)
	case 3:
		return rune(d[i]&0x0F)<<12 | rune(d[i+1]&0x3F)<<6 | rune(d[i+2]&0x3F)
	}
	return rune(d[i]&0x07)<<18 | rune(d[i+1]&0x3F)<<12 | rune(d[i+2]&0x3F)<<6 | rune(d[i+3]&0x3F)
}

func appendRune(out []byte, ch rune) []byte {
	switch {
	case ch < 0x80:
		return append(out, byte(ch))
	case ch < 0x800:
		return append(out, 0xC0|byte(ch>>6), 0x80|byte(ch)&0x3F)
	case ch < 0x10000:
		return append(out, 0xE0|byte(ch>>12), 0x80|byte(ch>>6)&0x3F, 0x80|byte(ch)&0x3F)
	}
	return append(out, 0xF0|byte(ch>>18), 0x80|byte(ch>>12)&0x3F, 0x80|byte(ch>>6)&0x3F, 0x80|byte(ch)&0x3F)
}

// escape decodes the Go escape at d[i] == '\\' for a literal delimited by
// quote. Returns the code point and the width, or width 0 when it is invalid.
func escape(d []byte, i int, quote byte) (rune, int) {
	if i+1 >= len(d) {
		return 0, 0
	}
	e := d[i+1]
	simple := func(r rune) (rune, int) { return r, 2 }
	switch e {
	case 'a':
		return simple(7)
	case 'b':
		return simple(8)
	case 'f':
		return simple(12)
	case 'n':
		return simple(10)
	case 'r':
		return simple(13)
	case 't':
		return simple(9)
	case 'v':
		return simple(11)
	case '\\':
		return simple('\\')
	case '\'', '"':
		if e != quote {
			return 0, 0
		}
		return simple(rune(e))
	case 'x', 'u', 'U':
		n := 2
		if e == 'u' {
			n = 4
		} else if e == 'U' {
			n = 8
		}
		if i+2+n > len(d) {
			return 0, 0
		}
		v := 0
		for k := 0; k < n; k++ {
			if !isHex(d[i+2+k]) {
				return 0, 0
			}
			v = v<<4 | hexVal(d[i+2+k])
		}
		if e != 'x' && (v > 0x10FFFF || v >= 0xD800 && v <= 0xDFFF) {
			return 0, 0
		}
		return rune(v), 2 + n
	}
	if e >= '0' && e <= '7' {
		if i+4 > len(d) || !isOct(d[i+2]) || !isOct(d[i+3]) {
			return 0, 0
		}
		v := int(e-'0')<<6 | int(d[i+2]-'0')<<3 | int(d[i+3]-'0')
		if v > 255 {
			return 0, 0
		}
		return rune(v), 4
	}
	return 0, 0
}

// strSpec describes the double-quoted literal at data[c:].
type strSpec struct {
	ok           bool
	length       int
	value        []byte
	noClaim      bool // raw CR / LF between the quotes: nothing about length or value is claimed
	noClaimValue bool // raw invalid UTF-8: the value is not claimed
}

func specString(d []byte, c int) strSpec {
	var s strSpec
	if c >= len(d) || d[c] != '"' {
		return s
	}
	i := c + 1
	for {
		if i >= len(d) {
			return strSpec{noClaim: s.noClaim}
		}
		b := d[i]
		switch {
		case b == '"':
			s.ok = true
			s.length = i + 1 - c
			return s
		case b == '\n' || b == '\r':
			s.noClaim = true
			i++
		case b == '\\':
			r, w := escape(d, i, '"')
			if w == 0 {
				return strSpec{noClaim: s.noClaim}
			}
			s.value = appendRune(s.value, r)
			i += w
		case b < 0x80:
			s.value = append(s.value, b)
			i++
		default:
			w := utf8Len(d, i)
			if w == 0 {
				s.noClaimValue = true
				s.value = append(s.value, b)
				i++
			} else {
				s.value = append(s.value, d[i:i+w]...)
				i += w
			}
		}
	}
}

// charSpec describes the character literal at data[c:].
type charSpec struct {
	ok           bool
	length       int
	value        rune
	noClaimValue bool
}

func specChar(d []byte, c int) charSpec {
	var s charSpec
	if c+2 >= len(d) || d[c] != '\'' {
		return s
	}
	i := c + 1
	w := 0
	switch {
	case d[i] == '\\':
		r, ew := escape(d, i, '\'')
		if ew == 0 {
			return s
		}
		s.value, w = r, ew
	case d[i] == '\'':
		return s
	case d[i] < 0x80:
		s.value, w = rune(d[i]), 1
	default:
		w = utf8Len(d, i)
		if w == 0 {
			// one byte that is not valid UTF-8: Go's conversion
			// (strconv.UnquoteChar) decodes it as U+FFFD
			w = 1
			s.value = 0xFFFD
		} else {
			s.value = decodeUTF8(d, i, w)
		}
	}
	if i+w >= len(d) || d[i+w] != '\'' {
		return charSpec{}
	}
	s.ok = true
	s.length = w + 2
	return s
}

func isWordByte(b byte) bool {
	return 'a' <= b && b <= 'z' || 'A' <= b && b <= 'Z' || '0' <= b && b <= '9' || b == '_'
}

// wordAt: the word w at d[c:] followed by a non-word byte or end of input.
func wordAt(d []byte, c int, w string) bool {
	return hasAt(d, c, w) && (c+len(w) == len(d) || !isWordByte(d[c+len(w)]))
}
