// Package htree: harnesses for C13 (tree passes reach every node once, in the
// documented order). Tree shapes are enumerated; leaf values, the abort point
// of Walk and the failing node are symbolic or forked.
package htree

import (
	"github.com/opsidian/parsley/ast"
	"github.com/opsidian/parsley/parsley"

	"vh/rt"
)

func init() {
	rt.Register("C13_Walk", C13_Walk)
	rt.Register("C13_StaticCheck", C13_StaticCheck)
	rt.Register("C13_Transform", C13_Transform)
	rt.Register("C13_Evaluate", C13_Evaluate)
}

func itoa(n int) string {
	if n == 0 {
		return "0"
	}
	s := ""
	for n > 0 {
		s = string(rune('0'+n%10)) + s
		n /= 10
	}
	return s
}

// spec is the harness's own description of a tree.
type spec struct {
	id    int
	kind  int // 0 terminal, 1 empty leaf, 2 empty non-terminal, 3 non-terminal
	kids  []*spec
	node  parsley.Node
	val   int64 // terminal value
	ikind int   // interpreter kind of a non-terminal (meaning depends on the harness)
	ip    *interp
}

type builder struct {
	next   int
	pos    int
	all    []*spec
	log    *callLog
	ikinds int // number of interpreter kinds to choose from
	// uniform mode (larger shapes): every non-terminal gets baseKind except
	// the specialAt-th one, which gets specialKind
	uniform                          bool
	baseKind, specialAt, specialKind int
	nts                              int
}

type call struct {
	what string
	id   int
}

type callLog struct {
	calls []call
	// schemas of the children as seen by a checker when it ran
	childSchemasOK bool
	// prefix of the schemas handed out in the current pass
	schemaTag string
}

// interp is the interpreter attached to non-terminals. Which optional
// interfaces it offers is decided by the wrapper types below.
type interp struct {
	sp   *spec
	log  *callLog
	fail bool
}

func (i *interp) Eval(userCtx interface{}, node parsley.NonTerminalNode) (interface{}, parsley.Error) {
	i.log.calls = append(i.log.calls, call{"eval", i.sp.id})
	if node != i.sp.node {
		rt.Fail("eval/wrong-node", "an interpreter was handed a node that is not its own")
		return nil, nil
	}
	if i.fail {
		return nil, parsley.NewErrorf(node.Pos(), "eval failed at "+itoa(i.sp.id))
	}
	// weighted sum of the children's values: sensitive to order and selection
	var sum int64
	for k, c := range node.Children() {
		v, err := parsley.EvaluateNode(userCtx, c)
		if err != nil {
			return nil, err
		}
		if n, ok := v.(int64); ok {
			sum += int64(k+1) * n
		}
	}
	return sum + 1, nil
}

type checker struct{ *interp }

func (c checker) StaticCheck(userCtx interface{}, node parsley.NonTerminalNode) (interface{}, parsley.Error) {
	c.log.calls = append(c.log.calls, call{"check", c.sp.id})
	if node != c.sp.node {
		rt.Fail("check/wrong-node", "a checker was handed a node that is not its own")
		return nil, nil
	}
	// children with a checker must already carry their final schema
	for _, k := range c.sp.kids {
		if k.kind == 3 || k.kind == 2 {
			if k.ikind == 1 && k.node.Schema() != c.log.schemaTag+"schema "+itoa(k.id) {
				c.log.childSchemasOK = false
			}
		}
	}
	if c.fail {
		return nil, parsley.NewErrorf(node.Pos(), "check failed at "+itoa(c.sp.id))
	}
	return c.log.schemaTag + "schema " + itoa(c.sp.id), nil
}

type transformer struct{ *interp }

func (t transformer) TransformNode(userCtx interface{}, node parsley.Node) (parsley.Node, parsley.Error) {
	t.log.calls = append(t.log.calls, call{"transform", t.sp.id})
	if node != t.sp.node {
		rt.Fail("transform/wrong-node", "a transformer was handed a node that is not its own")
		return nil, nil
	}
	if t.fail {
		return nil, parsley.NewErrorf(node.Pos(), "transform failed at "+itoa(t.sp.id))
	}
	return ast.NewTerminalNode(nil, "REPLACED", int64(1000+t.sp.id), node.Pos(), node.ReaderPos()), nil
}

// build enumerates a tree shape (concrete forks) with symbolic leaf values.
func (b *builder) build(depth, arity int) *spec {
	s := &spec{}
	kinds := 3
	if depth > 0 {
		kinds = 4
	}
	s.kind = rt.Choose("node", kinds)
	switch s.kind {
	case 0:
		s.val = rt.Int64("leaf")
		s.node = ast.NewTerminalNode(nil, "T", s.val, parsley.Pos(b.pos), parsley.Pos(b.pos+1))
		b.pos++
	case 1:
		s.node = ast.EmptyNode(parsley.Pos(b.pos))
	case 2, 3:
		if s.kind == 3 {
			n := 1 + rt.Choose("arity", arity)
			for i := 0; i < n; i++ {
				s.kids = append(s.kids, b.build(depth-1, arity))
			}
		}
		if b.uniform {
			s.ikind = b.baseKind
			if b.nts == b.specialAt {
				s.ikind = b.specialKind
			}
			b.nts++
		} else {
			s.ikind = rt.Choose("interp", b.ikinds)
		}
		s.ip = &interp{sp: s, log: b.log}
	}
	s.id = b.next
	b.next++
	b.all = append(b.all, s) // post-order: children were appended first
	return s
}

// buildRoot: the enumerated shapes, or (wide=W) one non-terminal with W
// children: symbolic leaves, except one child at an enumerated index that is
// an arbitrary small subtree.
func (b *builder) buildRoot() *spec {
	w := rt.Param("wide", 0)
	if w == 0 {
		return b.build(rt.Param("D", 2), rt.Param("A", 2))
	}
	s := &spec{kind: 3}
	special := rt.Choose("special", w)
	for i := 0; i < w; i++ {
		if i == special {
			s.kids = append(s.kids, b.build(1, 2))
			continue
		}
		k := &spec{kind: 0, val: rt.Int64("leaf")}
		k.node = ast.NewTerminalNode(nil, "T", k.val, parsley.Pos(b.pos), parsley.Pos(b.pos+1))
		b.pos++
		k.id = b.next
		b.next++
		b.all = append(b.all, k)
		s.kids = append(s.kids, k)
	}
	if b.uniform {
		s.ikind = b.baseKind
		if b.nts == b.specialAt {
			s.ikind = b.specialKind
		}
		b.nts++
	} else {
		s.ikind = rt.Choose("interp", b.ikinds)
	}
	s.ip = &interp{sp: s, log: b.log}
	s.id = b.next
	b.next++
	b.all = append(b.all, s)
	if w > 8 {
		rt.Cover("node with more than 8 children")
	}
	return s
}

// attach creates the real non-terminal nodes bottom-up; mk maps the
// interpreter kind to the interpreter value.
func attach(s *spec, mk func(s *spec) parsley.Interpreter) {
	for _, k := range s.kids {
		attach(k, mk)
	}
	if s.kind == 2 {
		s.node = ast.NewEmptyNonTerminalNode("NT", parsley.Pos(1), mk(s))
	}
	if s.kind == 3 {
		ch := make([]parsley.Node, len(s.kids))
		for i, k := range s.kids {
			ch[i] = k.node
		}
		s.node = ast.NewNonTerminalNode("NT", ch, mk(s))
	}
}

func newBuilder(ikinds int) *builder {
	b := &builder{pos: 1, log: &callLog{childSchemasOK: true}, ikinds: ikinds}
	if rt.Param("uniform", 0) == 1 && ikinds > 1 {
		b.uniform = true
		b.baseKind = rt.Choose("basekind", ikinds)
		b.specialAt = rt.Choose("specialat", 6)
		b.specialKind = rt.Choose("specialkind", ikinds)
	}
	return b
}

// C13_Walk: every node exactly once in post-order; stops at once when the
// callback returns true.
func C13_Walk() {
	b := newBuilder(1)
	root := b.buildRoot()
	attach(root, func(s *spec) parsley.Interpreter { return s.ip })
	order := b.all
	var rootNode parsley.Node = root.node
	total := len(order)
	listRoot := false
	if rt.Choose("listroot", 2) == 1 {
		listRoot = true
		// alternatives at the root: only the first one is walked, then the list itself
		other := ast.NewTerminalNode(nil, "ALT", int64(0), parsley.Pos(1), parsley.Pos(2))
		rootNode = ast.NodeList{root.node, other}
		total++
		rt.Cover("alternative list at the root")
	}
	stopAt := rt.Choose("stop", total+1) // == total: never stop
	visited := 0
	okOrder := true
	res := parsley.Walk(rootNode, func(n parsley.Node) bool {
		if visited < len(order) {
			if n != order[visited].node {
				okOrder = false
			}
		} else if _, isList := n.(ast.NodeList); !isList || !listRoot || visited != len(order) {
			okOrder = false
		}
		visited++
		return visited-1 == stopAt
	})
	rt.ObsInt("nodes", total)
	rt.ObsInt("visited", visited)
	rt.Assert(okOrder, "walk/post-order")
	if stopAt < total {
		rt.Assert(res, "walk/reports-interruption")
		rt.Assert(visited == stopAt+1, "walk/stops-immediately")
	} else {
		rt.Assert(!res, "walk/completes")
		rt.Assert(visited == total, "walk/every-node-once")
	}
}

// C13_StaticCheck: checkers run bottom-up in post-order, see their children's
// final schemas, the returned schema is stored, the first error aborts.
// interpreter kinds: 0 plain, 1 checker, 2 failing checker, 3 none.
func C13_StaticCheck() {
	b := newBuilder(4)
	root := b.buildRoot()
	attach(root, func(s *spec) parsley.Interpreter {
		switch s.ikind {
		case 1:
			return checker{s.ip}
		case 2:
			s.ip.fail = true
			return checker{s.ip}
		case 3:
			return nil
		}
		return s.ip
	})
	err := parsley.StaticCheck(nil, root.node)
	// reference: walk the post-order list
	var want []call
	failed := -1
	for _, s := range b.all {
		if s.kind < 2 || (s.ikind != 1 && s.ikind != 2) {
			continue
		}
		want = append(want, call{"check", s.id})
		if s.ikind == 2 {
			failed = s.id
			break
		}
	}
	rt.ObsInt("checks", len(b.log.calls))
	if len(b.log.calls) != len(want) {
		rt.Fail("check/call-count", "expected "+itoa(len(want))+" checker calls, saw "+itoa(len(b.log.calls)))
		return
	}
	for i := range want {
		if b.log.calls[i] != want[i] {
			rt.Fail("check/order", "checker call "+itoa(i)+" was for node "+itoa(b.log.calls[i].id)+", expected "+itoa(want[i].id))
			return
		}
	}
	rt.Assert(b.log.childSchemasOK, "check/children-schemas-final")
	if failed >= 0 {
		rt.Cover("a checker failed")
		if err == nil || err.Error() != "check failed at "+itoa(failed) {
			rt.Fail("check/first-error-returned", "")
			return
		}
	} else {
		rt.Assert(err == nil, "check/no-error")
	}
	// schemas recorded exactly on the nodes whose checker ran successfully
	for _, s := range b.all {
		if s.kind < 2 {
			continue
		}
		ran := false
		for _, c := range want {
			if c.id == s.id && s.ikind == 1 {
				ran = true
			}
		}
		if ran {
			rt.Assert(s.node.Schema() == "schema "+itoa(s.id), "check/schema-stored")
		} else {
			rt.Assert(s.node.Schema() == nil, "check/no-schema-without-checker")
		}
	}
	// a second pass over the same tree (the nodes now carry schemas) with
	// checkers that hand out different schemas: the same calls in the same
	// order, and the new schemas recorded
	b.log.calls = nil
	b.log.schemaTag = "second "
	err2 := parsley.StaticCheck(nil, root.node)
	if len(b.log.calls) != len(want) {
		rt.Fail("check/second-pass-call-count", "expected "+itoa(len(want))+" checker calls in the second pass, saw "+itoa(len(b.log.calls)))
		return
	}
	for i := range want {
		if b.log.calls[i] != want[i] {
			rt.Fail("check/second-pass-order", "")
			return
		}
	}
	rt.Assert(b.log.childSchemasOK, "check/second-pass-children-schemas-final")
	rt.Assert((err2 == nil) == (failed < 0), "check/second-pass-error")
	for _, s := range b.all {
		if s.kind < 2 || s.ikind != 1 {
			continue
		}
		for _, c := range want {
			if c.id == s.id {
				rt.Assert(s.node.Schema() == "second schema "+itoa(s.id), "check/second-pass-schema-stored")
			}
		}
	}
}

// render describes a tree after Transform.
func render(n parsley.Node) string {
	switch t := n.(type) {
	case *ast.TerminalNode:
		if t.Token() == "REPLACED" {
			v, _ := t.Value().(int64)
			return "R" + itoa(int(v))
		}
		return "T"
	case ast.EmptyNode:
		return "E"
	case *ast.NonTerminalNode:
		s := "N("
		for _, c := range t.Children() {
			s += render(c) + " "
		}
		return s + ")"
	}
	return "?"
}

// expected result of Transform on the spec tree; failed != nil is set to the
// id of the first failing transformer in evaluation order.
func transformSpec(s *spec, calls *[]call, failed *int) string {
	switch s.kind {
	case 0:
		return "T"
	case 1:
		return "E"
	}
	if s.ikind == 1 || s.ikind == 2 {
		*calls = append(*calls, call{"transform", s.id})
		if s.ikind == 2 {
			*failed = s.id
			return ""
		}
		return "R" + itoa(1000+s.id)
	}
	out := "N("
	for _, k := range s.kids {
		r := transformSpec(k, calls, failed)
		if *failed >= 0 {
			return ""
		}
		out += r + " "
	}
	return out + ")"
}

// C13_Transform: a node's own transformer is applied where its interpreter
// provides one; otherwise the children are transformed recursively and
// installed. interpreter kinds: 0 plain, 1 transformer, 2 failing transformer, 3 none.
func C13_Transform() {
	b := newBuilder(4)
	root := b.buildRoot()
	attach(root, func(s *spec) parsley.Interpreter {
		switch s.ikind {
		case 1:
			return transformer{s.ip}
		case 2:
			s.ip.fail = true
			return transformer{s.ip}
		case 3:
			return nil
		}
		return s.ip
	})
	var want []call
	failed := -1
	wantTree := transformSpec(root, &want, &failed)
	res, err := parsley.Transform(nil, root.node)
	rt.ObsInt("transforms", len(b.log.calls))
	if len(b.log.calls) != len(want) {
		rt.Fail("transform/call-count", "expected "+itoa(len(want))+" transformer calls, saw "+itoa(len(b.log.calls)))
		return
	}
	for i := range want {
		if b.log.calls[i] != want[i] {
			rt.Fail("transform/order", "")
			return
		}
	}
	if failed >= 0 {
		rt.Cover("a transformer failed")
		if err == nil || err.Error() != "transform failed at "+itoa(failed) || res != nil {
			rt.Fail("transform/first-error-returned", "")
		}
		return
	}
	if err != nil || res == nil {
		rt.Fail("transform/unexpected-error", "")
		return
	}
	got := render(res)
	rt.ObsStr("tree", got)
	if got != wantTree {
		rt.Fail("transform/result", "got "+got+", expected "+wantTree)
		return
	}
	if len(want) > 0 {
		rt.Cover("a transformer was applied")
	}
	rt.Assert(true, "transform")
}

// reference value of evaluation.
func evalSpec(s *spec, failed *int, calls *[]call) (int64, bool) {
	switch s.kind {
	case 0:
		return s.val, true
	case 1:
		*failed = -2 // an empty leaf has no value: ErrNoValue
		return 0, false
	}
	*calls = append(*calls, call{"eval", s.id})
	if s.ikind == 1 {
		*failed = s.id
		return 0, false
	}
	var sum int64
	for k, c := range s.kids {
		v, ok := evalSpec(c, failed, calls)
		if !ok {
			return 0, false
		}
		sum += int64(k+1) * v
	}
	return sum + 1, true
}

// C13_Evaluate: each interpreter gets exactly its node; the value equals the
// reference fold over the symbolic leaf values. kinds: 0 plain, 1 failing.
func C13_Evaluate() {
	b := newBuilder(2)
	root := b.buildRoot()
	attach(root, func(s *spec) parsley.Interpreter {
		if s.ikind == 1 {
			s.ip.fail = true
		}
		return s.ip
	})
	var want []call
	failed := -1
	wantV, ok := evalSpec(root, &failed, &want)
	v, err := parsley.EvaluateNode(nil, root.node)
	if len(b.log.calls) != len(want) {
		rt.Fail("eval/call-count", "expected "+itoa(len(want))+" interpreter calls, saw "+itoa(len(b.log.calls)))
		return
	}
	for i := range want {
		if b.log.calls[i] != want[i] {
			rt.Fail("eval/order", "")
			return
		}
	}
	if !ok {
		if err == nil {
			rt.Fail("eval/error-expected", "")
			return
		}
		if failed >= 0 {
			rt.Cover("an interpreter failed")
			rt.Assert(err.Error() == "eval failed at "+itoa(failed), "eval/first-error-returned")
		} else {
			rt.Assert(err.Error() == "node does not have a value", "eval/no-value-error")
		}
		return
	}
	if err != nil {
		rt.Fail("eval/unexpected-error", err.Error())
		return
	}
	got, isInt := v.(int64)
	if !isInt {
		rt.Fail("eval/value-type", "")
		return
	}
	rt.ObsInt("value", int(got))
	rt.Assert(got == wantV, "eval/value")
}
