#!/bin/sh
# seedtest.sh <worktree> <name> <check-id>... : confirm a seeded change in its scratch
# worktree, then run the given checks against it in /repo and undo it.
export GOFLAGS=-mod=mod GOPROXY=off GOSUMDB=off GOTOOLCHAIN=local
wt=$1; name=$2; shift 2
cd $wt || exit 2
demo=$(git status --short -uall | grep '^??' | grep '_test.go' | awk '{print $2}' | head -1)
pat=$(grep -ho 'func Test[A-Za-z0-9_]*' $demo | sed 's/func //' | paste -sd'|')
pkg=./$(dirname $demo)
echo "== $name: demo $demo tests /$pat/ in $pkg"
git diff --stat | tail -3
mv $demo /tmp/demo.$$.go
if go test -vet=off -count=1 ./... >/tmp/suite.$$ 2>&1; then echo "suite with change: PASS"; else echo "suite with change: FAIL"; grep -v '^ok\|no test files' /tmp/suite.$$ | head; fi
mv /tmp/demo.$$.go $demo
if go test -vet=off -count=1 -run "$pat" $pkg >/tmp/demo.$$ 2>&1; then echo "demo with change: PASS (unexpected)"; else echo "demo with change: FAIL (expected)"; fi
git stash -q
if go test -vet=off -count=1 -run "$pat" $pkg >/tmp/demo2.$$ 2>&1; then echo "demo without change: PASS (expected)"; else echo "demo without change: FAIL (unexpected)"; tail -5 /tmp/demo2.$$; fi
git stash pop -q
git diff > /tmp/patch.$$.diff
rm -f /tmp/suite.$$ /tmp/demo.$$ /tmp/demo2.$$
# run the checks against /repo with the change applied
cd /repo && git apply /tmp/patch.$$.diff || { echo "patch does not apply to /repo"; exit 2; }
for c in "$@"; do
  out=$(cd /verif && timeout 1500 bin/gosym check -prop $c -no-evidence 2>&1); rc=$?
  echo "-- check $c on the changed tree: exit $rc"
  echo "$out" | grep -E "violated|INCONCLUSIVE|ENGINE-MISMATCH" | cut -c1-260 | head -4
done
git -C /repo checkout -- .
git -C /repo status --short | head -3
mkdir -p /verif/seeded/$name
cp /tmp/patch.$$.diff /verif/seeded/$name/patch.diff
cp $wt/$demo /verif/seeded/$name/$(basename $demo).txt
rm -f /tmp/patch.$$.diff; rm -rf /verif/replays
